"""Generators: value streams (exact dyadic rationals, so the same stream is exact in f64 and in Q), view
expressions, and the catalogue of views with their domains."""
from fractions import Fraction as F
from .core import enc

# ------------------------------------------------------------------ view expressions
# An expression is a tuple: (name, *args) where args are sub-expressions (tuples), ints (window lengths),
# Fractions (scalar parameters) or, for `probe`, a list of Fraction|None.

def render(e, mode):
    name = e[0]
    parts = [name]
    for a in e[1:]:
        if isinstance(a, tuple):
            parts.append(render(a, mode))
        elif isinstance(a, bool):
            raise ValueError(a)
        elif isinstance(a, int):
            parts.append(str(a))
        elif isinstance(a, F):
            parts.append(enc(mode, a))
        elif isinstance(a, list):
            parts.extend("N" if v is None else enc(mode, v) for v in a)
        else:
            raise ValueError(a)
    return "(" + " ".join(parts) + ")"


ECHO = ("echo",)

# name -> dict(kind, minN, dom, transc, params)
#   params: list of 'n' (window), 'm' (second window), 'alpha','gamma','sigma','offset','clip'
#   dom: 'any' | 'pos' (positive inputs required) ; transc: uses sqrt/exp/ln/... (q-mode relations need a tolerance)
CATALOGUE = {
    "gte":      dict(params=["clip"], minN=1, dom="any", transc=False),
    "lte":      dict(params=["clip"], minN=1, dom="any", transc=False),
    "drawdown": dict(params=[], minN=1, dom="pos", transc=False),
    "lnret":    dict(params=[], minN=1, dom="pos", transc=True),
    "wroll":    dict(params=[], minN=1, dom="any", transc=True),
    "sma":      dict(params=["n"], minN=1, dom="any", transc=False),
    "ema":      dict(params=["n"], minN=1, dom="any", transc=False),
    "emaa":     dict(params=["n", "alpha"], minN=1, dom="any", transc=False),
    "alma":     dict(params=["n"], minN=1, dom="any", transc=True),
    "almac":    dict(params=["n", "sigma", "offset"], minN=1, dom="any", transc=True),
    "cum":      dict(params=["n"], minN=1, dom="any", transc=False),
    "min":      dict(params=["n"], minN=1, dom="any", transc=False),
    "max":      dict(params=["n"], minN=1, dom="any", transc=False),
    "roc":      dict(params=["n"], minN=1, dom="any", transc=False),
    "rsi":      dict(params=["n"], minN=1, dom="any", transc=False),
    "myrsi":    dict(params=["n"], minN=1, dom="any", transc=False),
    "wo":       dict(params=["n"], minN=1, dom="any", transc=True),
    "vst":      dict(params=["n"], minN=1, dom="any", transc=True),
    "vsct":     dict(params=["n"], minN=1, dom="any", transc=True),
    "hln":      dict(params=["n"], minN=1, dom="any", transc=False),
    "bent":     dict(params=["n"], minN=1, dom="any", transc=True),
    "cog":      dict(params=["n"], minN=1, dom="any", transc=False),
    "cti":      dict(params=["n"], minN=1, dom="any", transc=True),
    "net":      dict(params=["n"], minN=1, dom="any", transc=False),
    "ss":       dict(params=["n"], minN=1, dom="any", transc=True),
    "roof":     dict(params=["n", "m"], minN=2, dom="any", transc=True),
    "cc":       dict(params=["n"], minN=6, dom="any", transc=False),
    "lagf":     dict(params=["gamma"], minN=1, dom="any", transc=False),
    "lagrsi":   dict(params=["n"], minN=1, dom="any", transc=False),
    "tflex":    dict(params=["n"], minN=1, dom="any", transc=True),
    "rflex":    dict(params=["n"], minN=1, dom="any", transc=True),
}
UNARY = sorted(CATALOGUE)
# the crate's `Default` impls: Drawdown / LnReturn / WelfordRolling over Echo, built with `Default::default()` by the harness
DEFAULTS = {"drawdown_d": "drawdown", "lnret_d": "lnret", "wroll_d": "wroll"}
BINOPS = ["add", "sub", "mul", "div"]
TWO = {"pfe": dict(minN=3, transc=True), "eft": dict(minN=1, transc=True)}


def gen_params(rng, name, nmax=8, n=None):
    """random parameters for a catalogue view (dyadic scalars)"""
    info = CATALOGUE[name]
    ps = []
    for p in info["params"]:
        if p == "n":
            ps.append(n if n is not None else rng.randint(info["minN"], max(info["minN"], nmax)))
        elif p == "m":
            ps.append(rng.randint(1, 5))
        elif p == "alpha":
            ps.append(F(rng.choice([1, 2, 3, 4, 5, 6]), 2) if False else F(rng.choice([2, 3, 4, 5, 6, 8]), 4))
        elif p == "gamma":
            ps.append(F(rng.choice([0, 2, 4, 6, 8, 10, 12, 14, 1, 15]), 16))   # incl. gammas close to 0 and to 1
        elif p == "sigma":
            ps.append(F(rng.choice([1, 2, 4, 6, 6, 8, 12])))
        elif p == "offset":
            ps.append(F(rng.choice([0, 1, 2, 3, 4, 5, 6, 7, 8]), 8))
        elif p == "clip":
            ps.append(F(rng.randint(-16, 16), 4))
    return ps


def mk(name, inner, ps):
    return (name, inner) + tuple(ps)


def gen_unary(rng, inner=ECHO, nmax=8, names=None):
    name = rng.choice(names or UNARY)
    return mk(name, inner, gen_params(rng, name, nmax))


def gen_ma(rng):
    """a moving average over echo for pfe/eft"""
    # (not only convex averages: a SuperSmoother / LaguerreFilter / Ema with a custom weight overshoots its input range, which is
    # what the clamp inside EhlersFisherTransform is for — wave-5 seeds C09e, C15e)
    k = rng.choice(["ema", "sma", "ema", "alma", "echo", "ss", "ss", "lagf", "emaa"])
    if k == "echo":
        return ECHO
    return mk(k, ECHO, gen_params(rng, k, 4))


def gen_tree(rng, depth, allow_probe=True, names=None):
    """random view tree; leaves are echo / const / probe"""
    if depth <= 0:
        r = rng.random()
        if r < 0.8 or not allow_probe:
            return ECHO
        if r < 0.9:
            return ("const", F(rng.randint(-8, 8), 2))
        return ("probe", [rng.choice([None, None, F(rng.randint(-8, 8), 2), F(rng.randint(1, 9))]) for _ in range(rng.randint(1, 12))])
    r = rng.random()
    if r < 0.62:
        return gen_unary(rng, gen_tree(rng, depth - 1, allow_probe, names), 6, names)
    if r < 0.72:
        return ("tanh", gen_tree(rng, depth - 1, allow_probe, names))
    if r < 0.9:
        return (rng.choice(BINOPS), gen_tree(rng, depth - 1, allow_probe, names), gen_tree(rng, depth - 1, allow_probe, names))
    k = rng.choice(["pfe", "eft"])
    return (k, gen_tree(rng, depth - 1, allow_probe, names), gen_ma(rng), rng.randint(TWO[k]["minN"], 6))


def tree_names(e):
    out = [e[0]]
    for a in e[1:]:
        if isinstance(a, tuple):
            out += tree_names(a)
    return out


def has_transc(e):
    for n in tree_names(e):
        if n == "tanh" or (n in CATALOGUE and CATALOGUE[n]["transc"]) or n in TWO:
            return True
    return False


# ------------------------------------------------------------------ value streams

FAMILIES = ["ints", "dyadic8", "dyadic1024", "ties", "zeros", "rampup", "rampdown", "spike",
            "flat_after_volatile", "affine", "sawtooth", "big_small", "tiny", "huge", "decimal", "const_decimal", "fav_decimal"]


def stream(rng, family, length, n=4, positive=False):
    """a list of `length` exact dyadic Fractions (each is exactly a double)"""
    L = length
    if family == "ints":
        xs = [F(rng.randint(-9, 9)) for _ in range(L)]
    elif family == "dyadic8":
        xs = [F(rng.randint(-80, 80), 8) for _ in range(L)]
    elif family == "dyadic1024":
        xs = [F(rng.randint(-4096, 4096), 1024) for _ in range(L)]
    elif family == "ties":
        pool = [F(rng.randint(-3, 3)) for _ in range(3)]
        xs = [rng.choice(pool) for _ in range(L)]
    elif family == "zeros":
        xs = [F(rng.choice([-2, -1, 0, 0, 0, 1, 2])) for _ in range(L)]
    elif family == "rampup":
        x = F(rng.randint(-5, 5)); xs = []
        for _ in range(L):
            x += F(rng.randint(1, 12), 4); xs.append(x)
    elif family == "rampdown":
        x = F(rng.randint(-5, 5)); xs = []
        for _ in range(L):
            x -= F(rng.randint(1, 12), 4); xs.append(x)
    elif family == "spike":
        base = F(rng.randint(-3, 3))
        xs = [base + F(rng.randint(-2, 2), 8) for _ in range(L)]
        xs[rng.randrange(max(L, 1)) if L else 0:0] = []
        if L: xs[rng.randrange(L)] = base + F(rng.choice([-1, 1]) * rng.randint(50, 500))
    elif family == "flat_after_volatile":
        k = max(1, L - (n + 2) - rng.randint(0, n))
        c = F(rng.randint(-6, 6), 2)
        xs = [F(rng.randint(-400, 400), 8) for _ in range(k)] + [c] * (L - k)
    elif family == "fav_long":
        # volatile stretch with long mantissas and mixed magnitudes, then a flat stretch longer than the window
        k = max(1, L - (n + 2) - rng.randint(0, n))
        c = F(rng.randint(1, 400), 8) * rng.choice([-1, 1])
        xs = [(F(rng.randint(-1000, 1000), 8) + F(rng.getrandbits(44), 2 ** 47)) * rng.choice([1, 1, 100]) for _ in range(k)] + [c] * (L - k)
    elif family == "affine":
        a = F(rng.choice([-3, -2, -1, 1, 2, 3]), 2); b = F(rng.randint(-8, 8), 2)
        xs = [a * t + b for t in range(L)]
    elif family == "sawtooth":
        p = rng.randint(2, 5)
        xs = [F((t % p) - p // 2) + F(rng.randint(0, 1), 8) for t in range(L)]
    elif family in ("tiny", "huge"):
        # ordinary shapes in very small / very large units (exact powers of two): absolute thresholds show up here
        base = stream(rng, rng.choice(["ints", "dyadic8", "ties", "rampup", "sawtooth", "spike"]), L, n)
        sc = F(2) ** ((-70 if rng.random() < 0.35 else -40) if family == "tiny" else 30)   # 9e-13 or 8e-22: below any plausible absolute guard
        xs = [x * sc for x in base]
    elif family == "level":
        # a quiet series at a high level (an index near 10^6 moving by hundredths): the spread is 10^-8 ... 10^-9 of the level, so
        # a RELATIVE threshold (variance <= mean^2 * epsilon, var > sqrt(eps)*n*sxx, ...) fires here and nowhere else
        # (wave-5 seeds C06e, C16e); a sum of squares minus the square of the sum loses everything (C13e)
        base = stream(rng, rng.choice(["ints", "dyadic8", "ties", "rampup", "sawtooth", "rampdown"]), L, n)
        lvl = F(2) ** rng.choice([20, 20, 24, 30]) * rng.choice([1, 1, -1])
        xs = [lvl + x * F(1, 64) for x in base]
    elif family in ("decimal", "const_decimal", "fav_decimal"):
        # the doubles nearest to short decimals (0.3, 12.34, 100.1, ...): full 53-bit mantissas, so sums of them are inexact
        # in f64 — rounding residue appears even on a CONSTANT window.  (Exact Fractions of those doubles: every mode is fed
        # the same values.)
        def dc():
            d = rng.choice([1, 1, 2, 3])
            return F(float(F(rng.randint(-2000, 2000), 10 ** d) * rng.choice([1, 1, 1, 100])))
        if family == "decimal":
            xs = [dc() for _ in range(L)]
        elif family == "const_decimal":
            c = F(float(rng.choice([F(3, 10), F(7, 10), F(1001, 10), F(1234, 100), F(1, 10), F(-3, 10), F(2999, 1000), dc()])))
            xs = [c] * L
        else:
            k = max(1, L - (n + 2) - rng.randint(0, n))
            c = F(float(rng.choice([F(3, 10), F(7, 10), F(1001, 10), F(1234, 100), dc()])))
            xs = [dc() for _ in range(k)] + [c] * (L - k)
    elif family == "big_small":
        xs = [F(rng.choice([1, 1000])) * F(rng.randint(-16, 16), 16) for _ in range(L)]
    else:
        raise ValueError(family)
    if positive:
        lo = min(xs)
        shift = F(1, 8) - lo if lo <= 0 else F(0)
        xs = [x + shift + F(1, 8) for x in xs]
    return xs


def gen_stream(rng, length, n=4, positive=False, families=None):
    fam = rng.choice(families or FAMILIES)
    return fam, stream(rng, fam, length, n, positive)


def needs_positive(e):
    """views whose domain is positive input; a chain containing one is fed positive values"""
    names = tree_names(e)
    return any(x in ("drawdown", "lnret", "drawdown_d", "lnret_d") for x in names)


def window_of(e):
    ns = [a for a in e[1:] if isinstance(a, int) and not isinstance(a, bool)]
    return max(ns) if ns else 1


def norelapse(e):
    """rewrite probe scripts so that, once a value has been reported, no later entry is None"""
    if e[0] == "probe":
        sc = e[1]
        k = next((i for i, v in enumerate(sc) if v is not None), len(sc))
        vals = [v for v in sc[k:] if v is not None]
        return ("probe", [None] * k + vals) if vals else ("probe", [None] * max(k, 1) + [F(1)])
    return tuple(norelapse(a) if isinstance(a, tuple) else a for a in e)


def gen_pure_tree(rng, depth):
    """trees of combinators (Add, Subtract, Multiply, Divide, Tanh, GTE, LTE) over Echo / Constant leaves"""
    if depth <= 0:
        return ECHO if rng.random() < 0.6 else ("const", F(rng.randint(-8, 8), 2))
    r = rng.random()
    if r < 0.2:
        return ("tanh", gen_pure_tree(rng, depth - 1))
    if r < 0.4:
        return mk(rng.choice(["gte", "lte"]), gen_pure_tree(rng, depth - 1), [F(rng.randint(-16, 16), 4)])
    op = rng.choice(BINOPS)
    b = gen_pure_tree(rng, depth - 1) if op != "div" else ("const", F(rng.choice([-3, -1, 2, 5]), 2))
    return (op, gen_pure_tree(rng, depth - 1), b)


# ------------------------------------------------------------------ trees that keep every node inside its domain

POS_PRESERVING = {"echo", "sma", "ema", "emaa", "max", "min", "alma", "almac", "cum", "gte"}


def pos_preserving(e):
    """on positive raw input this subtree only reports positive values (means / extrema / running sums of positive numbers)"""
    if e[0] == "const":
        return e[1] > 0
    if e[0] not in POS_PRESERVING:
        return False
    return all(pos_preserving(a) for a in e[1:] if isinstance(a, tuple))


def domain_safe(e):
    """every Divide has a divisor that cannot be zero, every LnReturn / Drawdown an inner view that stays positive (given
    positive raw input): no node of the tree is ever asked for 0/0, ln(0) or a negative peak, so no NaN can appear in the
    release build (where the crate's `debug_assert!`s are compiled out)"""
    if e[0] == "div" and not pos_preserving(e[2]):
        return False
    if e[0] in ("lnret", "drawdown", "lnret_d", "drawdown_d") and not pos_preserving(e[1]):
        return False
    return all(domain_safe(a) for a in e[1:] if isinstance(a, tuple))
