"""Per-property job generators and the check driver."""
import json, os, random, sys, time, math, collections
from fractions import Fraction as F
from . import core, gen
from .core import log
from .jobs import *
from .gen import ECHO, mk

KNOWN_FILE = os.path.join(core.VERIF, "known_findings.json")

TRUSTED = [
    "Lean 4.33 kernel (thorough tier: leanchecker re-check of the property module)",
    "axioms propext, Classical.choice, Quot.sound only (audited per theorem with #print axioms); no sorry/native_decide",
    "Mathlib v4.33 as a library of proved lemmas",
    "hand-written Lean model SF/Model/*.lean, tied to /repo by the correspondence run of this check (differential, sampled) and, for 28 views, by the translator tie (below)",
    "translator tools/rs2lean.py (its reading of the Rust subset the crate uses: &mut self as state passing, VecDeque/Vec as lists, usize as Nat with checked subtraction, unwrap/index/debug_assert as failing operations, the std functions of SF/GenPrelude.lean); the equality of its output with the model is NOT trusted: SF.GenEq.<View>.tie is kernel-checked on every run",
    "Rust harness (Dyn adapter, exact scalar Q with f64-bridged transcendental functions, panic capture, allocation meter)",
    "Lean compiler/runtime and libm for the executable Float/Rat instantiations of the model",
    "statements in SF/Props and specs in SF/Spec.lean as a faithful reading of properties.jsonl",
]


def scale_n(tier, quick, thorough):
    return thorough if tier == "thorough" else quick


def stream_for(rng, e, length, families=None, n=None):
    n = n or gen.window_of(e)
    return gen.gen_stream(rng, length, n, positive=gen.needs_positive(e), families=families)


def both_mode_corr(e, xs, extra_ops=(), projection_f="f64", n=1):
    """correspondence jobs for one expression on one stream, at f64 (tolerance, bit count recorded) and at Q (exact)"""
    js = []
    for mode in ("f", "q"):
        ops = xs_ops(mode, xs) + list(extra_ops)
        js.append(Corr(e, mode, ops, projection_f if mode == "f" else "exact", scale=float(max([abs(x) for x in xs] + [1])), n=n))
    return js


# ====================================================================== C01
C01_INNERS = lambda rng: [
    mk("sma", ECHO, [2]), mk("roc", ECHO, [2]), mk("ema", ECHO, [3]), mk("rsi", ECHO, [3]), mk("max", ECHO, [2]),
    mk("wo", ECHO, [3]), mk("ss", ECHO, [2]), mk("cum", ECHO, [2]), ("tanh", ECHO),
    ("probe", [rng.choice([None, None, F(rng.randint(-8, 8), 2)]) for _ in range(rng.randint(3, 14))]),
    ("probe", [None] * rng.randint(2, 6) + [F(rng.randint(1, 9), 2) for _ in range(4)] + [None, F(3)]),
    ("sub", mk("sma", ECHO, [2]), mk("ema", ECHO, [2])),
]
POS_INNERS = [mk("sma", ECHO, [2]), mk("ema", ECHO, [3]), mk("max", ECHO, [2]), mk("alma", ECHO, [3])]


def raw_any_inners(rng):
    """inner views whose output is positive for every raw input in [-11, 11] (incl. exact zeros and negative values)"""
    return [("add", ECHO, ("const", F(12))), mk("gte", ECHO, [F(rng.randint(1, 8), 4)]),
            mk("sma", ("add", ECHO, ("const", F(12))), [rng.randint(1, 3)]), ("add", ("tanh", ECHO), ("const", F(2)))]


def jobs_C01(rng, tier):
    js = []
    reps = scale_n(tier, 2, 12)
    # (a) every unary wrapper over several kinds of inner view: chain vs decomposition, bitwise at f64
    outers = [mk(nm, ECHO, gen.gen_params(rng, nm, 5)) for nm in gen.UNARY for _ in range(reps)]
    # the smallest windows of every wrapper: that is where the special-case arms live (emptied deque, first value, …)
    for nm in gen.UNARY:
        if "n" in gen.CATALOGUE[nm]["params"]:
            for n in (1, 2, 3):
                if n >= gen.CATALOGUE[nm]["minN"]:
                    outers.append(mk(nm, ECHO, gen.gen_params(rng, nm, 5, n=n)))
    outers += [("tanh", ECHO)] * reps
    for _ in range(reps * 2):
        outers.append(("pfe", ECHO, gen.gen_ma(rng), rng.randint(3, 5)))
        outers.append(("eft", ECHO, gen.gen_ma(rng), rng.randint(1, 5)))
    for outer in outers:
        pos = gen.needs_positive(outer)
        inners = POS_INNERS if pos else C01_INNERS(rng)
        if outer[0] == "tanh":
            # Tanh maps the child's current answer, so it is decomposable only over inner views whose readiness
            # never reverts (true of every catalogue view, C08); relapsing probes are used for the stateful wrappers
            inners = [i for i in inners if i[0] != "probe"] + [("probe", [None] * rng.randint(1, 5) + [F(rng.randint(-8, 8), 2) for _ in range(6)])]
        for inner in rng.sample(inners, min(len(inners), scale_n(tier, 3, 6))):
            fam, xs = gen.gen_stream(rng, rng.randint(14, 30), 3, positive=pos or gen.needs_positive(inner))
            js.append(Decomp(outer, inner, xs))
        if pos:
            # a wrapper with a restricted domain over an inner view that maps ANY raw input into that domain: the raw stream
            # may then contain zeros and negative values (seed C01d: LnReturn skipped exact-zero raw inputs)
            for inner in raw_any_inners(rng):
                fam, xs = gen.gen_stream(rng, rng.randint(14, 30), 3, families=["zeros", "ints", "ties", "dyadic8", "sawtooth"])
                js.append(Decomp(outer, inner, xs))
    # (b) binary combinators: value iff both children have one, and equal to the pointwise result
    for _ in range(scale_n(tier, 40, 400)):
        op = rng.choice(gen.BINOPS)
        a = gen.gen_tree(rng, rng.randint(0, 2), True)
        b = gen.gen_tree(rng, rng.randint(0, 2), True) if op != "div" else rng.choice([("const", F(rng.choice([-3, -1, 2, 5]), 2)), mk("sma", ECHO, [2]), mk("max", ECHO, [3])])
        pos = gen.needs_positive(a) or gen.needs_positive(b) or op == "div"
        fam, xs = gen.gen_stream(rng, rng.randint(10, 24), 3, positive=pos)
        js.append(Relation("binop", (op, a, b), [xs, xs, xs], dict(op=op, domain_ok=True), mode="f", es=[(op, a, b), a, b]))
    # (c) correspondence with the Lean `denote` on random trees (every input reaches every leaf once, in order)
    for _ in range(scale_n(tier, 120, 1500)):
        e = gen.gen_tree(rng, rng.randint(1, 3 if tier == "quick" else 4), True)
        fam, xs = gen.gen_stream(rng, rng.randint(10, 30), 3, positive=gen.needs_positive(e) or "div" in gen.tree_names(e))
        # projection `pattern`: C01's theorems are generic in the cores, so only the None/Some/panic pattern of the
        # tree (who is fed, who reports) is tied to the model here; values are covered by the decompositions above
        js.append(Corr(e, "f", xs_ops("f", xs), "pattern"))
    return js


def rel_binop(job, outs):
    op = job.params["op"]
    for t, (c, a, b) in enumerate(zip(outs[0], outs[1], outs[2])):
        if a is None or b is None:
            if c is not None:
                return ("step %d: combining node reports a value although a child has none" % (t + 1), None, c)
            continue
        if op == "div" and b == 0:
            continue
        exp = {"add": lambda: a + b, "sub": lambda: a - b, "mul": lambda: a * b, "div": lambda: a / b}[op]()
        if c is None or (c != exp and not (c != c and exp != exp)):
            return ("step %d: %s node does not report %s of its children's current outputs" % (t + 1, op, op), exp, c)


RELATIONS["binop"] = rel_binop


# ====================================================================== C02
C02_VIEWS = ["sma", "cum", "min", "max", "wo", "hln", "roc", "bent", "vst", "vsct"]


def jobs_spec_views(rng, tier, names, quick=14, thorough=150, nmax=8, minn=None, only_some=(), fams=None, acc=("wo", "wroll"),
                    fmode=True, length=None, big_exact=True, small_scope=True, ss_len=None):
    js = []
    # exhaustive small scope: EVERY stream of length 6 (8 in the thorough tier) over a three-letter alphabet (a zero, a positive and a negative value of
    # different magnitudes; positive letters for the positive-domain views), for every window length 1, 2, 3 — all orders of
    # ties, zeros, sign changes, values leaving as others arrive; implementation in exact arithmetic against the definition.
    # Deterministic: nothing is left to the PRNG for the inputs that the small-scope hypothesis says matter most.
    import itertools
    SS_LEN = ss_len or (6 if tier == "quick" else 8)
    for nm in names:
        if nm in ("pfe", "eft") or not small_scope:
            continue
        e0 = gen.gen_unary(random.Random(0), ECHO, nmax, [nm])
        alpha = [F(1, 2), F(1), F(3)] if gen.needs_positive(e0) else [F(0), F(1), F(-2)]
        wins = [n for n in (1, 2, 3) if n >= gen.CATALOGUE[nm]["minN"]] if "n" in gen.CATALOGUE[nm]["params"] else [None]
        if not wins:
            wins = [gen.CATALOGUE[nm]["minN"]]
        for n in wins:
            e = mk(nm, ECHO, gen.gen_params(random.Random(n or 0), nm, nmax, n=n))
            for xs in itertools.product(alpha, repeat=SS_LEN):
                j = SpecEq(e, list(xs), acc=nm in acc, only_some=nm in only_some)
                j.small_scope = True
                js.append(j)
    if fams and "tiny" not in fams:
        # ordinary shapes in units of 2^-40 and 2^30: an absolute threshold (epsilon, 1e-10, ...) in a view shows up there
        # (wave-4 seed C13d: WelfordRolling reported 0 while n·sigma² <= epsilon)
        fams = list(fams) + ["tiny", "huge"]
    fams = list(fams or gen.FAMILIES) + ["level"]
    for nm in names:
        for _ in range(scale_n(tier, quick, thorough)):
            e = gen.gen_unary(rng, ECHO, nmax, [nm])
            if minn and nm in minn and gen.window_of(e) < minn[nm]:
                e = mk(nm, ECHO, gen.gen_params(rng, nm, nmax, n=rng.randint(minn[nm], max(minn[nm], nmax))))
            n = gen.window_of(e)
            L = length or rng.randint(2 * n + 3, 3 * n + 8)
            fam, xs = stream_for(rng, e, L, fams)
            js.append(SpecEq(e, xs, acc=nm in acc, only_some=nm in only_some))
            js += both_mode_corr(e, xs, ["A"] if nm in acc else [], n=n)[: 2 if fmode else 1]
        # larger windows (buffers that change representation with size, power-of-two effects): N = 16 ... 128
        if "n" in gen.CATALOGUE[nm]["params"]:
            # (… and past 255 / 256, where a counter or an index narrowed to u8 would wrap)
            for n in rng.sample([16, 31, 32, 33, 64, 65, 100, 128, 255, 256, 257, 300], scale_n(tier, 4, 12)):
                e = mk(nm, ECHO, gen.gen_params(rng, nm, nmax, n=n))
                fam, xs = stream_for(rng, e, n + rng.randint(n // 2 + 3, n + 8), fams)
                if big_exact:
                    js.append(SpecEq(e, xs, acc=nm in acc, only_some=nm in only_some))
                else:   # recursive filters: exact rationals grow with the stream; compare at f64 against the spec at f64
                    js.append(SpecEq(e, xs, acc=nm in acc, only_some=nm in only_some, mode="f", rel=1e-8))
                js += both_mode_corr(e, xs, ["A"] if nm in acc else [], n=n)[:1]
        # the definition is over the values DELIVERED by the inner view: the same view chained over an inner view that has
        # a warm-up of its own must equal the stand-alone inner view followed by the view over Echo fed what that delivered
        for _ in range(scale_n(tier, 2, 12)):
            e = gen.gen_unary(rng, ECHO, nmax, [nm])
            if minn and nm in minn and gen.window_of(e) < minn[nm]:
                e = mk(nm, ECHO, gen.gen_params(rng, nm, nmax, n=rng.randint(minn[nm], max(minn[nm], nmax))))
            inner = rng.choice([mk("sma", ECHO, [rng.randint(2, 6)]), mk("ema", ECHO, [rng.randint(2, 5)]), mk("max", ECHO, [rng.randint(2, 4)]),
                                mk("ss", ECHO, [rng.randint(2, 5)]), mk("rsi", ECHO, [rng.randint(2, 5)])])
            pos = gen.needs_positive(e)
            if pos:
                inner = rng.choice([mk("sma", ECHO, [rng.randint(2, 6)]), mk("ema", ECHO, [rng.randint(2, 5)]), mk("max", ECHO, [rng.randint(2, 4)])])
            fam, xs = gen.gen_stream(rng, gen.window_of(e) + gen.window_of(inner) + rng.randint(8, 24), gen.window_of(e), positive=True,
                                     families=["dyadic8", "rampup", "rampdown", "spike", "sawtooth", "decimal"])
            if rng.random() < 0.35:
                # raw streams with zeros / negative values under an inner view that maps them into the outer view's domain
                inner = rng.choice(raw_any_inners(rng))
                fam, xs = gen.gen_stream(rng, gen.window_of(e) + rng.randint(10, 26), gen.window_of(e),
                                         families=["zeros", "ints", "ties", "dyadic8", "sawtooth"])
            js.append(Decomp(e, inner, xs))
    return js


def jobs_C02(rng, tier):
    js = jobs_spec_views(rng, tier, C02_VIEWS)
    # a few large windows and windows longer than the stream
    for nm in C02_VIEWS:
        for n in (1, 2, 17, 40):
            e = mk(nm, ECHO, [n])
            fam, xs = stream_for(rng, e, 60)
            js.append(SpecEq(e, xs, acc=nm in ("wo",)))
    js += long_suffix_jobs(rng, tier, C02_VIEWS)
    js += outlier_jobs(rng, tier, C02_VIEWS)
    return js


# ====================================================================== C03
def c03_K(nm, n, m=0):
    if nm in ("rsi", "myrsi", "roc"):
        return n + 1
    if nm == "alma":
        return 2 * n
    if nm == "pfe":
        return n + m - 1
    return n


C03_VIEWS = ["sma", "cum", "min", "max", "roc", "wo", "vst", "vsct", "hln", "bent", "cog", "cti", "net", "rsi", "myrsi", "alma"]


def jobs_C03(rng, tier):
    js = []
    for nm in C03_VIEWS + ["pfe"]:
        for _ in range(scale_n(tier, 14, 150)):
            if nm == "pfe":
                n, m = rng.randint(3, 6), rng.randint(1, 4)
                e = ("pfe", ECHO, mk("sma", ECHO, [m]), n)
                K = c03_K(nm, n, m)
            else:
                n = rng.randint(1, 7)
                e = mk(nm, ECHO, gen.gen_params(rng, nm, 7, n=n))
                K = c03_K(nm, n)
            fam, suffix = gen.gen_stream(rng, K + rng.randint(0, 3), n,
                                         families=["ints", "dyadic8", "ties", "rampup", "spike", "sawtooth", "dyadic1024"])
            if nm == "roc":
                suffix = [x if x != 0 else F(1, 2) for x in suffix]
            if nm == "myrsi" and len(set(suffix[-K:])) == 1:
                suffix[-1] += 1
            big = F(rng.choice([1, 10, 1000, 10 ** 6]))
            p1 = [big * x for x in gen.gen_stream(rng, rng.randint(0, 3 * n + 5), n)[1]]
            p2 = [big * x + 7 for x in gen.gen_stream(rng, rng.randint(1, 40), n)[1]]
            js.append(Relation("suffix", e, [p1 + suffix, p2 + suffix], dict(K=K)))
            if rng.random() < 0.5:
                # the shared suffix BEGINS with a plateau (at least a window of equal values) that one history enters from above
                # and the other from below, or that starts one of them (wave-8 seed C03h: PFE took the sign of its last move from
                # a latch that a repeated value leaves unchanged, so a flat window remembered a move older than the suffix)
                c = F(rng.randint(2, 9))
                plateau = [c] * (K + rng.randint(0, 2)) + [c + F(rng.randint(-3, 3), 2) for _ in range(rng.randint(0, 3))]
                if nm == "myrsi" and len(set(plateau[-K:])) == 1:
                    plateau[-1] += 1
                up = [c - 1 - F(rng.randint(0, 4), 2) for _ in range(rng.randint(1, n + 2))]
                down = [c + 1 + F(rng.randint(0, 4), 2) for _ in range(rng.randint(1, n + 2))]
                q1, q2 = rng.choice([(up, down), (down, up), ([], up), (down, [])])
                js.append(Relation("suffix", e, [q1 + plateau, q2 + plateau], dict(K=K)))
            fam, xs = stream_for(rng, e, 3 * n + 6)
            js += both_mode_corr(e, xs, n=n)[1:]
    js += long_suffix_jobs(rng, tier, C03_VIEWS + ["pfe"])
    js += outlier_jobs(rng, tier, C03_VIEWS + ["pfe"])
    return js


def long_suffix_jobs(rng, tier, names):
    """"over exactly the last N values", however long the stream has been running: a history of 10^3 ... 10^5 values and a
    short history that ends in the same K values must give the same output (wave-4 seeds C03d / C05d: a periodic
    "re-synchronisation" of running sums every 4096 / 65536 values that rebuilt them from the wrong boundary).  The long run is
    done in f64 (compared with a tolerance) for every view and length, and in exact arithmetic for a few."""
    js = []
    lengths = [1030, 4100, 65540] + ([131080, 262150] if tier == "thorough" else [])
    exact = set(rng.sample(names, min(len(names), 3 if tier == "quick" else len(names))))
    for nm in names:
        for L0 in lengths:
            if nm == "pfe":
                n, m = rng.randint(3, 6), rng.randint(1, 4)
                e = ("pfe", ECHO, mk("sma", ECHO, [m]), n)
                K = c03_K(nm, n, m)
            else:
                n = rng.choice([1, 2, 3, 4, 5, 7, 16, 33])
                n = max(n, gen.CATALOGUE[nm]["minN"])
                e = mk(nm, ECHO, gen.gen_params(rng, nm, 7, n=n))
                K = c03_K(nm, n)
            L = L0 + n + rng.randint(0, 2 * n + 3)   # at least 2^k + 4 evictions / updates past a full window
            period = rng.choice([11, 37, 350])
            pos = nm in ("roc", "cog")
            base = [F(rng.randint(1, 128) if pos else rng.randint(-64, 64), 8) for _ in range(period)]
            xs = [base[t % period] + F(t % 7, 16) + F((t // 1000) % 3, 4) for t in range(L)]
            suffix = xs[-(K + rng.randint(0, 3)):]
            if nm == "myrsi" and len(set(suffix[-K:])) == 1:
                continue
            short = [F(rng.randint(1, 9))] * rng.randint(0, 3) + suffix
            cheap = nm in ("sma", "cum", "min", "max", "rsi", "myrsi", "roc", "bent", "hln")   # exact cost per step does not grow
            modes = ["f"] + (["q"] if nm in exact and n <= 7 and L0 <= (65540 if cheap else 4100) else [])
            for mode in modes:
                js.append(Relation("suffix", e, [xs, short], dict(K=K, tol=1e-7 if mode == "f" else None, scale=16), mode=mode))
    return js


RESIDUE_FREE = ["min", "max", "roc", "hln", "bent", "cog", "cti", "net", "pfe"]


def outlier_jobs(rng, tier, names, reps=None):
    """f64: "a value that has left the window can never again influence any output" for the views that recompute their answer
    from the window (no running sums): a value 10^12 ... 10^17 times larger than the rest passes through the window; once it
    has left, the output must again be (to 1e-6 of the output's scale) what a history without it gives.  A view of this list
    that is rewritten to maintain running sums incrementally keeps the rounding residue of the outlier for ever (wave-4
    seeds C06d, C11d; in exact arithmetic such a rewrite is invisible).  The views that DO maintain running sums in the
    unchanged crate (Sma, Cumulative, WelfordOnline, Vst, Vsct, Alma, Rsi, MyRSI) are not in this list: their residue is
    recorded under C16 (K3)."""
    js = []
    for nm in names:
        if nm not in RESIDUE_FREE:
            continue
        for _ in range(reps or scale_n(tier, 4, 30)):
            if nm == "pfe":
                n = rng.randint(3, 9)
                e = ("pfe", ECHO, ECHO, n)
                K = n
            else:
                n = max(rng.choice([2, 3, 5, 8, 16]), gen.CATALOGUE[nm]["minN"])
                e = mk(nm, ECHO, gen.gen_params(rng, nm, 7, n=n))
                K = c03_K(nm, n)
            big = F(10) ** rng.choice([12, 15, 16, 17])
            val = lambda: F(float(F(rng.randint(100, 20000), 100)))
            sign = 1 if nm in ("roc", "cog") else rng.choice([1, -1])
            if rng.random() < 0.4:
                # the outlier is the very FIRST value the view ever sees (wave-7 seed C03g: CTI stored its window relative to an
                # "origin" taken from the first delivered value and never refreshed it)
                pre = [val() * big * sign] + [val() for _ in range(rng.randint(0, 2 * n))]
            else:
                pre = [val() for _ in range(rng.randint(n, 3 * n))] + [val() * big * sign] + [val() for _ in range(rng.randint(0, n))]
            suffix = [val() for _ in range(K + rng.randint(1, n + 2))]
            short = [val() for _ in range(rng.randint(1, 4))]
            js.append(Relation("suffix", e, [pre + suffix, short + suffix], dict(K=K, tol=1e-6, scale=200), mode="f"))
    return js


# ====================================================================== C04
def jobs_C04(rng, tier):
    js = []
    R = scale_n(tier, 12, 120)
    for nm in ("sma", "ema", "alma"):
        for _ in range(R):
            n = rng.randint(1, 8)
            e = mk(nm, ECHO, [n])
            fam, xs = gen.gen_stream(rng, 3 * n + 8, n, families=["ints", "dyadic8", "zeros", "ties", "spike", "rampup", "sawtooth", "big_small"])
            tol = dict(tol=1e-12) if nm == "alma" else {}
            js.append(Relation("interval", e, [xs], dict(N=0 if nm == "ema" else n, **tol)))
            c = F(rng.randint(-20, 20), 4)
            js.append(Relation("const", e, [[c] * (2 * n + 4)], dict(**tol)))
            ys = [x + F(rng.randint(0, 6), 4) * rng.randint(0, 1) for x in xs]
            js.append(Relation("mono", e, [xs, ys], {}))
            a, b = F(rng.randint(1, 24), 8), F(rng.randint(-40, 40), 8)
            js.append(Relation("same", e, [xs, [a * x + b for x in xs]], dict(map="affine", a=a, b=b, **tol)))
    # Ema recursion for every input incl. zeros and sign changes (any alpha); Alma = Gaussian weighted mean
    js += jobs_spec_views(rng, tier, ["sma", "ema", "emaa", "alma", "almac"], quick=12, thorough=120,
                          fams=["zeros", "ints", "ties", "dyadic8", "spike", "sawtooth"])
    # streams that start with / pass through exactly 0 for Ema
    for _ in range(R):
        n = rng.randint(1, 6)
        xs = [F(0)] * rng.randint(1, 3) + gen.stream(rng, "zeros", 3 * n + 4)
        js.append(SpecEq(mk("ema", ECHO, [n]), xs))
        xs2 = [F(2), F(-2)] + gen.stream(rng, "ints", 2 * n + 4)   # w=1/2 makes the state hit exactly 0
        js.append(SpecEq(mk("ema", ECHO, [3]), xs2))
    js += long_suffix_jobs(rng, tier, ["sma", "alma"])
    return js


# ====================================================================== C05
def flat_window_steps(xs, n):
    """0-based steps at which the (at most n) values in the window are all equal"""
    return [t for t in range(len(xs)) if len(set(xs[max(0, t + 1 - n): t + 1])) == 1]


def flat_steps(xs, n):
    """0-based steps at which the last n changes (d_0 = 0) are all zero"""
    d = [F(0)] + [xs[i] - xs[i - 1] for i in range(1, len(xs))]
    return [t for t in range(len(xs)) if all(v == 0 for v in d[max(0, t + 1 - n): t + 1])]


def jobs_C05(rng, tier):
    js = jobs_spec_views(rng, tier, ["rsi", "myrsi"], quick=40, thorough=400,
                         fams=["ints", "ties", "rampup", "rampdown", "spike", "flat_after_volatile", "dyadic8", "sawtooth", "zeros"])
    for _ in range(scale_n(tier, 25, 250)):
        n = rng.randint(1, 8)
        fam, xs = gen.gen_stream(rng, 3 * n + 8, n)
        js.append(Relation("same", mk("rsi", ECHO, [n]), [xs, [-x for x in xs]], dict(map="hundred_minus", skip=flat_steps(xs, n))))
        js.append(Relation("same", mk("myrsi", ECHO, [n]), [xs, [-x for x in xs]], dict(map="neg")))
        up = gen.stream(rng, "rampup", 2 * n + 6)
        dn = gen.stream(rng, "rampdown", 2 * n + 6)
        if n >= 2:
            # a strictly monotone window needs at least one change in it: from value N+1 on all N changes are real
            js.append(Relation("value", mk("rsi", ECHO, [n]), [up], dict(value=F(100), **{"from": n})))
            js.append(Relation("value", mk("myrsi", ECHO, [n]), [up], dict(value=F(1), **{"from": n})))
            js.append(Relation("value", mk("rsi", ECHO, [n]), [dn], dict(value=F(0), **{"from": n + 1})))
            js.append(Relation("value", mk("myrsi", ECHO, [n]), [dn], dict(value=F(-1), **{"from": n})))
    js += long_suffix_jobs(rng, tier, ["rsi", "myrsi"])
    return js


# ====================================================================== C06
def jobs_C06(rng, tier):
    js = jobs_spec_views(rng, tier, ["cti", "net", "cog"], quick=40, thorough=400, minn=dict(cti=3, net=3, cog=3),
                         only_some=("cti",), fams=["ints", "ties", "rampup", "rampdown", "spike", "dyadic8", "sawtooth", "affine", "zeros"])
    for _ in range(scale_n(tier, 25, 250)):
        n = rng.randint(3, 8)
        fam, xs = gen.gen_stream(rng, 3 * n + 6, n)
        up = gen.stream(rng, "rampup", 2 * n + 5)
        dn = gen.stream(rng, "rampdown", 2 * n + 5)
        a, b = F(rng.randint(1, 9), 4), F(rng.randint(-9, 9), 2)
        aff = [a * t + b for t in range(2 * n + 5)]
        js.append(Relation("value", mk("net", ECHO, [n]), [up], dict(value=F(1), **{"from": n})))
        js.append(Relation("value", mk("net", ECHO, [n]), [dn], dict(value=F(-1), **{"from": n})))
        js.append(Relation("value", mk("cti", ECHO, [n]), [aff], dict(value=F(1), tol=1e-9, **{"from": n})))
        js.append(Relation("value", mk("cti", ECHO, [n]), [[-x for x in aff]], dict(value=F(-1), tol=1e-9, **{"from": n})))
        js.append(Relation("same", mk("net", ECHO, [n]), [xs, [-x for x in xs]], dict(map="neg")))
        js.append(Relation("same", mk("cti", ECHO, [n]), [xs, [-x for x in xs]], dict(map="neg", tol=1e-9, skip=list(range(n - 1)))))
        # NET depends only on the order of the values: apply a strictly increasing map
        f = rng.choice([lambda x: x * x * x, lambda x: 3 * x + 1, lambda x: x * x * x + x, lambda x: (x if x < 0 else 10 * x)])
        js.append(Relation("same", mk("net", ECHO, [n]), [xs, [f(x) for x in xs]], dict(map="id")))
        c = F(rng.choice([-5, -1, 1, 3, 7]), 2)
        js.append(Relation("value", mk("cog", ECHO, [n]), [[c] * (2 * n + 3)], dict(value=F(0))))
    js += long_suffix_jobs(rng, tier, ["cti", "net", "cog"])
    js += outlier_jobs(rng, tier, ["cti", "net", "cog"], reps=scale_n(tier, 8, 40))
    return js


# ====================================================================== C07
def jobs_C07(rng, tier):
    js = []
    R = scale_n(tier, 10, 100)
    fams = ["ints", "dyadic8", "ties", "zeros", "rampup", "rampdown", "spike", "flat_after_volatile", "affine", "sawtooth", "big_small", "dyadic1024",
            "decimal", "const_decimal", "fav_decimal"]
    spec = [  # (view, lo, hi, extra)
        ("rsi", 0, 100, {}), ("myrsi", -1, 1, {}), ("hln", -1, 1, {}), ("cti", -1, 1, dict(slack=F(1, 10 ** 12))),
        ("net", -1, 1, {}), ("lagrsi", 0, 1, {}), ("bent", 0, 1, dict(slack=F(1, 10 ** 12))),
        ("wo", 0, None, {}), ("wroll", 0, None, {}),
    ]
    for nm, lo, hi, extra in spec:
        for _ in range(R):
            n = rng.randint(2, 9)
            e = mk(nm, ECHO, gen.gen_params(rng, nm, 9, n=n))
            fam, xs = gen.gen_stream(rng, 4 * n + 8, n, families=fams)
            js.append(Relation("range", e, [xs], dict(lo=None if lo is None else F(lo), hi=None if hi is None else F(hi), fam=fam, **extra)))
            js += both_mode_corr(e, xs, n=n)[1:]
    for _ in range(R):
        n = rng.randint(2, 9)
        fam, xs = gen.gen_stream(rng, 4 * n + 8, n, families=fams)
        inner = rng.choice([ECHO, mk("sma", ECHO, [2]), mk("roc", ECHO, [2]), mk("cum", ECHO, [3])])
        js.append(Relation("range", ("tanh", inner), [[x if x != 0 or inner[0] != "roc" else F(1) for x in xs]], dict(lo=F(-1), hi=F(1), fam=fam)))
        ma = gen.gen_ma(rng)
        js.append(Relation("range", ("eft", ECHO, ma, n), [xs], dict(lo=-F(math.log(199)) - F(1, 10 ** 9), hi=F(math.log(199)) + F(1, 10 ** 9), fam=fam)))
        # |Vsct| <= (N-1)/sqrt(N)
        bound = F((n - 1) / math.sqrt(n)) + F(1, 10 ** 9)
        js.append(Relation("range", mk("vsct", ECHO, [n]), [xs], dict(lo=-bound, hi=bound, fam=fam)))
        # Min <= Sma, Alma, newest <= Max over the same window
        for mid in (mk("sma", ECHO, [n]), mk("alma", ECHO, [n]), ECHO):
            js.append(Relation("sandwich", mid, [xs, xs, xs], dict(slack=F(1, 10 ** 12) if mid[0] == "alma" else 0),
                               es=[mk("min", ECHO, [n]), mid, mk("max", ECHO, [n])]))
        clip = F(rng.randint(-12, 12), 4)
        js.append(Relation("range", mk("gte", ECHO, [clip]), [xs], dict(lo=clip, hi=None)))
        js.append(Relation("range", mk("lte", ECHO, [clip]), [xs], dict(lo=None, hi=clip)))
        fam, pos = gen.gen_stream(rng, 4 * n + 8, n, positive=True, families=fams)
        js.append(Relation("range", mk("drawdown", ECHO, []), [pos], dict(lo=F(0), hi=F(1), strict_hi=True, nondecreasing=True)))
        js.append(Relation("range", mk("cog", ECHO, [n]), [pos], dict(lo=-F(n - 1, 2), hi=F(n - 1, 2))))
    # "for every finite input": the scale-free bounded views at the ends of the f64 range -- subnormals, 2^-1000, 2^600 (wave-7
    # seed C07g: Drawdown multiplied by a cached 1/peak, which is +inf for a subnormal peak)
    for nm, lo, hi in (("drawdown", 0, 1), ("hln", -1, 1), ("rsi", 0, 100), ("myrsi", -1, 1), ("net", -1, 1), ("lagrsi", 0, 1)):
        for _ in range(max(2, R // 3)):
            n = rng.randint(2, 6)
            unit = rng.choice([F(2) ** -1074, F(2) ** -1070, F(2) ** -1040, F(2) ** -1000, F(2) ** -600, F(2) ** 600])
            e = mk(nm, ECHO, gen.gen_params(rng, nm, 6, n=n))
            ks = [rng.randint(1, 200) for _ in range(4 * n + 8)]
            if nm != "drawdown":
                ks = [k - 100 for k in ks]
            xs = [F(k) * unit for k in ks]
            d = dict(lo=float(lo), hi=float(hi), slack=4 * 2.3e-16 * max(abs(hi), 1), fam="extreme_unit", f64=True)
            if nm == "drawdown":
                d.update(nondecreasing=True)
            js.append(Relation("range", e, [xs], d, mode="f"))
    # the bounds are claimed of every reported value, so also of the same views chained over an inner view (wave-4 seed C07d:
    # Vsct fed its own window the inner view's outputs but normalised the RAW input) — exact arithmetic
    chain_inners = lambda: rng.choice([mk("sma", ECHO, [rng.randint(2, 5)]), mk("ema", ECHO, [rng.randint(2, 4)]), mk("cum", ECHO, [rng.randint(2, 4)]),
                                       mk("max", ECHO, [rng.randint(2, 4)]), mk("rsi", ECHO, [rng.randint(2, 4)]), mk("hln", ECHO, [rng.randint(2, 5)]),
                                       ("sub", ECHO, mk("sma", ECHO, [3]))])
    for nm, lo, hi, extra in spec + [("vsct", None, None, {})]:
        for _ in range(max(2, R // 2)):
            n = rng.randint(2, 9)
            e = mk(nm, chain_inners(), gen.gen_params(rng, nm, 9, n=n))
            fam, xs = gen.gen_stream(rng, 4 * n + 12, n, families=["ints", "dyadic8", "ties", "rampup", "spike", "sawtooth", "zeros", "big_small"])
            if nm == "vsct":
                b = F((n - 1) / math.sqrt(n)) + F(1, 10 ** 9)
                lo_, hi_ = -b, b
            else:
                lo_, hi_ = (None if lo is None else F(lo)), (None if hi is None else F(hi))
            js.append(Relation("range", e, [xs], dict(lo=lo_, hi=hi_, fam=fam, **extra)))
    # the same bounds on the f64 code itself (measurement): few-ulp slack, non-degenerate families
    nf = ["ints", "dyadic8", "ties", "rampup", "rampdown", "spike", "affine", "sawtooth", "dyadic1024", "flat_after_volatile", "fav_long",
          "decimal", "const_decimal", "fav_decimal"]
    for nm, lo, hi, extra in spec:
        for _ in range(R * 2):
            n = rng.randint(2, 9)
            e = mk(nm, ECHO, gen.gen_params(rng, nm, 9, n=n))
            fam, xs = gen.gen_stream(rng, 6 * n + 8, n, families=nf)
            sl = 4 * 2.3e-16 * max(abs(hi or 1), 1)
            js.append(Relation("range", e, [xs], dict(lo=None if lo is None else float(lo), hi=None if hi is None else float(hi), slack=sl, fam=fam, f64=True), mode="f"))
    return js


# ====================================================================== C08
FIRST = dict(sma="N", ema="N", emaa="N", ss="N", rsi="N", myrsi="N", lnret=2, echo=1, min=1, max=1, cum=1, alma=1, almac=1,
             cog=1, bent=1, gte=1, lte=1, lagf=1, drawdown=1, wroll=1, hln=1, cti=1, roc=1, tflex=1, eft=1)


def jobs_C08(rng, tier):
    js = []
    R = scale_n(tier, 6, 60)
    for nm in gen.UNARY:
        for _ in range(R):
            e = mk(nm, ECHO, gen.gen_params(rng, nm, 9))
            n = gen.window_of(e)
            fam, xs = stream_for(rng, e, 3 * n + 10, families=["ints", "dyadic8", "ties", "spike", "rampup", "sawtooth", "flat_after_volatile", "zeros"] if nm not in ("roc",) else ["rampup", "dyadic8", "spike"])
            if nm == "roc":
                # Roc holds its previous answer (none at the start) while its base is exactly 0 (C02): "from the 1st value" is only
                # demanded of streams that do not start at 0 — a positive stream here; zero bases are exercised by C02 / C03
                fam, xs = gen.gen_stream(rng, 3 * n + 10, n, positive=True, families=["rampup", "dyadic8", "spike"])
            ps = {}
            if nm in FIRST:
                ps["first"] = n if FIRST[nm] == "N" else FIRST[nm]
            if nm == "roof":
                ps["first"] = e[2] + e[3] + 1
                fam, xs = stream_for(rng, e, e[2] + e[3] + 12)
            if nm in ("wo", "vst", "vsct"):
                ps["first_lo"], ps["first_hi"] = max(n - 1, 1), max(n, 1)
            js.append(Relation("ready", e, [xs], ps))
            js.append(Relation("ready", e, [xs], {}, mode="f"))
            js.append(Corr(e, "f", xs_ops("f", xs), "pattern", n=n))
            # the same claim for the f32 instance (a threshold or constant that is only representable in f64 — seed C08d:
            # `T::from(1e-300)` is 0 at f32): small dyadic values are exact in f32, windows that sum / cancel to exactly zero
            fam, xs32 = stream_for(rng, e, 3 * n + 10, families=["zeros", "ints", "ties", "sawtooth", "dyadic8", "flat_after_volatile"])
            if nm == "roc":
                xs32 = [x if x != 0 else F(1, 2) for x in xs32]
            js.append(Relation("ready", e, [xs32], dict(ps), mode="s"))
            # negative zeros (wave-5 seed C08e: BinaryEntropy counted an arriving -0.0 with `>= 0` and un-counted it with
            # `is_sign_positive()`): the f64 run on a zero-heavy stream in which some zeros carry a minus sign
            if nm != "roc" and not gen.needs_positive(e):
                zs = [(-0.0 if (x == 0 and rng.random() < 0.6) else x) for x in gen.stream(rng, rng.choice(["zeros", "zeros", "ties"]), 3 * n + 10, n)]
                js.append(Relation("ready", e, [zs], dict(ps), mode="f"))
    # Alma with narrow custom kernels (large sigma, small windows): either the constructor rejects the kernel (its weights
    # underflow to zero in the scalar type) or every reported value is finite — never 0/0 (defect D18, found by the f32 twins of
    # the thorough tier: `Alma::new_custom(_, 1, 40.0, 0.875)` reported NaN at f64, sigma = 12 sufficed at f32)
    for n in (1, 2, 3, 5, 10):
        for sg in (12, 24, 40, 64, 128):
            e = mk("almac", ECHO, [n, F(sg), F(rng.choice([1, 4, 6, 7]), 8)])
            xs = gen.stream(rng, rng.choice(["ints", "dyadic8", "rampup"]), 2 * n + 6, n)
            for mode in ("f", "s"):
                js.append(Relation("ready", e, [xs], dict(ctor_may_reject=True), mode=mode))
            js.append(Corr(e, "f", xs_ops("f", xs), "f64", both_builds=True, n=n))   # model and implementation agree on the rejection
    for _ in range(R * 2):
        js.append(Relation("ready", ("tanh", ECHO), [gen.gen_stream(rng, 8)[1]], dict(first=1)))
        n = rng.randint(3, 6)
        js.append(Relation("ready", ("pfe", ECHO, mk("ema", ECHO, [rng.randint(1, 3)]), n), [gen.gen_stream(rng, 30, n)[1]], {}))
        js.append(Relation("ready", ("eft", ECHO, mk("ema", ECHO, [rng.randint(1, 3)]), n), [gen.gen_stream(rng, 30, n)[1]], {}))
    # a view that has been delivered nothing never changes its answer
    for nm in gen.UNARY:
        for _ in range(max(1, R // 2)):
            L = rng.randint(10, 24)
            script = [rng.choice([None, F(rng.randint(1, 40), 4)]) for _ in range(L)]
            e = mk(nm, ("probe", script), gen.gen_params(rng, nm, 5))
            xs = gen.stream(rng, "ints", L)
            idle = [t for t in range(L) if script[t] is None]
            js.append(Relation("idle", e, [xs], dict(idle=idle)))
    # chains: readiness pattern vs the model
    for _ in range(scale_n(tier, 80, 800)):
        e = gen.gen_tree(rng, rng.randint(1, 3), True)
        fam, xs = gen.gen_stream(rng, rng.randint(12, 40), 3, positive=gen.needs_positive(e) or "div" in gen.tree_names(e))
        js.append(Corr(e, "f", xs_ops("f", xs), "pattern"))
        risky = {"probe", "lnret", "div", "drawdown"} & set(gen.tree_names(e))   # inner outputs may leave the outer view's domain
        js.append(Relation("ready", e, [xs], {}, mode="f") if not risky else Corr(e, "q", xs_ops("q", xs), "pattern"))
    return js


# ====================================================================== C09
REC_VIEWS = ["ema", "lagf", "ss", "roof", "cc", "tflex", "rflex", "lagrsi"]


def rec_expr(rng, nm, n):
    if nm == "lagf":
        return mk("lagf", ECHO, [F(rng.choice([0, 1, 2, 3, 4, 5, 6, 7]), 8)])
    if nm == "roof":
        return mk("roof", ECHO, [max(n, 2), rng.randint(1, 6)])
    if nm == "cc":
        return mk("cc", ECHO, [max(n, 6)])
    if nm in ("tflex", "rflex"):
        return mk(nm, ECHO, [n])
    if nm == "eft":
        return ("eft", ECHO, gen.gen_ma(rng), n)   # any moving average, incl. ones that overshoot (SuperSmoother, LaguerreFilter)
    return mk(nm, ECHO, [n])


def rel_bounded(job, outs):
    B = job.params["B"]
    vals = [u for u in outs[0] if u is not None]
    for u in vals:
        if u != u or abs(u) == float("inf"):
            return ("non-finite output on a bounded stream", "finite", u)
    half = len(vals) // 2
    m1 = max([abs(u) for u in vals[:half]] + [0.0])
    m2 = max([abs(u) for u in vals[half:]] + [0.0])
    cap = job.params.get("cap", 1e3) * max(B, 1.0)
    if m2 > cap:
        return ("output magnitude %g on inputs bounded by %g" % (m2, B), "<= %g" % cap, m2)
    if m2 > 4 * max(m1, 1e-9 * B) and m2 > 1e-6 * B and job.params.get("growth", True):
        return ("output keeps growing on a statistically stationary bounded stream", "<= %g" % (4 * m1), m2)


def rel_converge(job, outs):
    merge, lag = job.params["merge"], job.params["lag"]
    d = [abs(u - v) if (u is not None and v is not None) else None for u, v in zip(outs[0], outs[1])]
    seen = [x for x in d[:merge + 1] if x is not None]
    d0 = max(seen + [0.0])
    tail = [x for x in d[merge + lag:] if x is not None]
    if not tail:
        return None
    scale = job.params.get("scale", 1.0)
    if max(tail) > job.params.get("eps", 1e-6) * max(d0, scale * 1e-3):
        return ("streams identical from value %d on still differ by %g after %d further values" % (merge + 1, max(tail), lag), "-> 0 geometrically", max(tail))


RELATIONS["bounded"] = rel_bounded
RELATIONS["converge"] = rel_converge


def jobs_C09(rng, tier):
    js = []
    R = scale_n(tier, 2, 10)
    for nm in REC_VIEWS + ["eft"]:
        ns = list(range(1, 10)) + [16, 40] + ([100] if tier == "thorough" else [])
        for n in ns:
            for _ in range(R):
                e = rec_expr(rng, nm, n)
                neff = gen.window_of(e)
                L = scale_n(tier, 1500, 12000)
                B = float(rng.choice([1, 100]))
                xs = [F(rng.randint(-1024, 1024), 1024) * int(B) for _ in range(L)]
                cap = dict(tflex=20, rflex=20, lagrsi=2, eft=6).get(nm, 1e3)
                js.append(Relation("bounded", e, [xs], dict(B=B, cap=cap / (B if nm in ("tflex", "rflex", "lagrsi", "eft") else 1), growth=nm not in ("tflex", "rflex", "lagrsi", "eft")), mode="f"))
                # a bounded random walk with runs of new highs / lows (what makes an overshooting smoother inside a normaliser leave
                # [-1, 1]: wave-5 seeds C09e, C15e), same bound
                w, walk = 0, []
                for _ in range(min(L, 3000)):
                    w = max(-1024, min(1024, w + rng.choice([-1, 1]) * rng.randint(0, 64) * rng.choice([1, 1, 1, 4])))
                    walk.append(F(w, 1024) * int(B))
                js.append(Relation("bounded", e, [walk], dict(B=B, cap=cap / (B if nm in ("tflex", "rflex", "lagrsi", "eft") else 1), growth=nm not in ("tflex", "rflex", "lagrsi", "eft")), mode="f"))
                # common tail
                lag = max(60 * neff, 900) if nm in ("tflex", "rflex") else max(60 * neff, 400)
                merge = rng.randint(5, 40)
                tail = [F(rng.randint(-1024, 1024), 1024) for _ in range(lag + 40)]
                p1 = [F(rng.randint(-1024, 1024), 8) for _ in range(merge)]
                p2 = [F(rng.randint(-1024, 1024), 8) for _ in range(merge)]
                js.append(Relation("converge", e, [p1 + tail, p2 + tail], dict(merge=merge, lag=lag, scale=1.0), mode="f"))
                if n in (3, 4, 8, 16):
                    # ordinary heads, then a common tail in a tiny unit (2^-30 .. 2^-45): an absolute threshold inside a
                    # normaliser (a guard `> epsilon` instead of `> 0`) freezes or kills the output there
                    k2 = rng.choice([30, 36, 45, 60, 70])   # down to 8e-22: below epsilon as an ABSOLUTE amplitude (wave-6 seed C09f)
                    u = F(1, 2 ** k2)
                    # TrendFlex / ReFlex forget through a 0.96-per-step leaky mean square: the head (|x| <= 128) has to fade
                    # below 1e-8 of a tail in units of 2^-k2 before the outputs can agree: that many steps, plus a margin
                    lag2 = max(lag, int((2 * (5 + k2 * 0.6931) + 19) / 0.0408) + 300) if nm in ("tflex", "rflex") else max(lag, 1200)
                    tiny = [F(rng.randint(-1024, 1024), 1024) * u for _ in range(lag2 + 40)]
                    js.append(Relation("converge", e, [p1 + tiny, p2 + tiny], dict(merge=merge, lag=lag2, scale=1.0 if nm in ("tflex", "rflex", "lagrsi", "eft") else float(u)), mode="f"))
                if n in (3, 4, 8, 16) and nm != "eft":   # EFT: see known finding K10 (its moving average is not fed on a flat window)
                    # a loud and a quiet head, then a long stretch of ONE repeated value (long enough for the smoother to reach an
                    # exact floating-point fixed point), then movement again: from 40 values later on the two runs must agree.  (Wave-8 seed
                    # C09h: TrendFlex returned early when its deviation was exactly 0 and skipped the decay of its running mean
                    # square, so the loud head's scale survived the flat stretch.  Invisible in exact arithmetic, where the
                    # deviation never becomes exactly 0.)
                    flat = [F(rng.randint(-8, 8), 4)] * (40 * neff + 600)
                    loud = [F(rng.randint(-1024, 1024), 8) for _ in range(merge)]
                    quiet = [F(rng.randint(-1024, 1024), 1024) for _ in range(merge)]
                    move = [F(rng.randint(-1024, 1024), 1024) for _ in range(340)]
                    js.append(Relation("converge", e, [loud + flat + move, quiet + flat + move],
                                       dict(merge=merge, lag=len(flat) + 40, scale=1.0, eps=1e-2), mode="f"))
                    js.append(Corr(e, "f", xs_ops("f", loud + flat + move), "f64", scale=128.0, n=neff))
                js.append(Corr(e, "f", xs_ops("f", xs[:200]), "f64", scale=B, n=neff))
    # chains built from recursive views
    for _ in range(scale_n(tier, 12, 100)):
        a, b = rng.sample(["ema", "ss", "lagf", "roof", "cc"], 2)
        e = rec_expr(rng, a, rng.randint(2, 9))
        e2 = rec_expr(rng, b, rng.randint(2, 9))
        chain = (e2[0], e) + tuple(e2[2:])
        xs = [F(rng.randint(-1024, 1024), 1024) for _ in range(1500)]
        js.append(Relation("bounded", chain, [xs], dict(B=1.0), mode="f"))
    return js


# ====================================================================== C10
LIN_VIEWS = ["sma", "ema", "alma", "cum", "lagf", "ss", "roof", "cc"]


def jobs_C10(rng, tier):
    js = []
    R = scale_n(tier, 14, 140)
    for nm in LIN_VIEWS:
        for _ in range(R):
            e = rec_expr(rng, nm, rng.randint(1, 8)) if nm in ("lagf", "roof", "cc") else mk(nm, ECHO, [rng.randint(1, 8)])
            n = gen.window_of(e)
            L = min(3 * n + 8, 30)
            fx, xs = gen.gen_stream(rng, L, n)
            fy, ys = gen.gen_stream(rng, L, n)
            a, b = F(rng.choice([-3, -1, 0, 1, 2, 5]), rng.choice([1, 2, 4])), F(rng.choice([-2, -1, 0, 1, 3]), rng.choice([1, 2]))
            js.append(Relation("linear", e, [xs, ys, [a * x + b * y for x, y in zip(xs, ys)]], dict(a=a, b=b)))
            js += both_mode_corr(e, xs, n=n)[1:]
        # superposition has no scale: streams in tiny / huge units and tiny scalars (exact arithmetic), so that an absolute
        # threshold anywhere inside the filter (a "flush to zero below epsilon") shows as a non-linearity
        for _ in range(max(3, R // 3)):
            e = rec_expr(rng, nm, rng.randint(1, 8)) if nm in ("lagf", "roof", "cc") else mk(nm, ECHO, [rng.randint(1, 8)])
            n = gen.window_of(e)
            L = min(3 * n + 8, 30)
            u = F(2) ** rng.choice([-70, -60, -52, -45, 40, 60])
            xs = [x * u for x in gen.gen_stream(rng, L, n)[1]]
            ys = [y * u for y in gen.gen_stream(rng, L, n)[1]]
            a, b = rng.choice([(F(1), F(-1)), (F(2) ** -50, -F(2) ** -52), (F(3), F(1, 2)), (F(2) ** 30, F(1))])
            js.append(Relation("linear", e, [xs, ys, [a * x + b * y for x, y in zip(xs, ys)]], dict(a=a, b=b)))
        # inputs engineered so the internal state hits exactly zero (x, then -x scaled)
        for _ in range(max(2, R // 4)):
            e = mk(nm, ECHO, [3]) if nm not in ("lagf", "roof", "cc") else rec_expr(rng, nm, 3)
            xs = [F(2), F(-2), F(0), F(0), F(4), F(-4), F(1), F(0), F(3)] + gen.stream(rng, "zeros", 12)
            ys = gen.stream(rng, "ints", len(xs))
            js.append(Relation("linear", e, [xs, ys, [x - y for x, y in zip(xs, ys)]], dict(a=F(1), b=F(-1))))
    # a chain of linear views is a linear view, and a low-pass over a low-pass still maps a constant to the constant from its first
    # output — also when the inner view has a warm-up (wave-5 seed C10e: Ema counted update() calls, so over Sma(5) it skipped
    # its first-value seeding and started from zero)
    for _ in range(R):
        a_, b_ = rng.choice(LIN_VIEWS), rng.choice(LIN_VIEWS)
        inner = rec_expr(rng, a_, rng.randint(2, 6)) if a_ in ("lagf", "roof", "cc") else mk(a_, ECHO, [rng.randint(2, 6)])
        outer0 = rec_expr(rng, b_, rng.randint(1, 6)) if b_ in ("lagf", "roof", "cc") else mk(b_, ECHO, [rng.randint(1, 6)])
        e = (outer0[0], inner) + tuple(outer0[2:])
        L = 30
        xs, ys = gen.gen_stream(rng, L, 4)[1], gen.gen_stream(rng, L, 4)[1]
        a, b = F(rng.choice([-3, -1, 1, 2, 5]), rng.choice([1, 2, 4])), F(rng.choice([-2, -1, 1, 3]), rng.choice([1, 2]))
        js.append(Relation("linear", e, [xs, ys, [a * x + b * y for x, y in zip(xs, ys)]], dict(a=a, b=b)))
        lp = ["sma", "ema", "alma", "lagf"]
        i2, o2 = rng.choice(lp), rng.choice(lp)
        inner2 = rec_expr(rng, "lagf", 1) if i2 == "lagf" else mk(i2, ECHO, [rng.randint(2, 7)])
        outer2 = rec_expr(rng, "lagf", 1) if o2 == "lagf" else mk(o2, ECHO, [rng.randint(1, 7)])
        c = F(rng.choice([-7, -2, 1, 3, 10, 13]), 4)
        js.append(Relation("const", (outer2[0], inner2) + tuple(outer2[2:]), [[c] * 40], dict(tol=1e-12) if "alma" in (i2, o2) else {}))
    # DC behaviour
    for _ in range(R):
        c = F(rng.choice([-7, -2, 1, 3, 10]), 2)
        n = rng.randint(1, 9)
        for nm in ("sma", "ema", "alma"):
            js.append(Relation("const", mk(nm, ECHO, [n]), [[c] * (3 * n + 5)], dict(tol=1e-12) if nm == "alma" else {}))
        js.append(Relation("const", rec_expr(rng, "lagf", 1), [[c] * 20], {}))
        m = rng.randint(1, 12)
        js.append(Relation("value", mk("ss", ECHO, [m]), [[c] * (40 * m + 200)], dict(value=c, tol=1e-9, **{"from": 40 * m + 150}), mode="f"))
        n2 = rng.randint(2, 12)
        js.append(Relation("value", mk("roof", ECHO, [n2, rng.randint(1, 5)]), [[c] * (60 * n2 + 400)], dict(value=F(0), tol=1e-9, **{"from": 60 * n2 + 350}), mode="f"))
        n6 = rng.randint(6, 14)
        js.append(Relation("value", mk("cc", ECHO, [n6]), [[c] * (60 * n6 + 400)], dict(value=F(0), tol=1e-9, **{"from": 60 * n6 + 350}), mode="f"))
    return js


# ====================================================================== C11
C11_VIEWS = ["ss", "roof", "lagf", "lagrsi", "cc", "tflex", "rflex"]


def jobs_C11(rng, tier):
    js = jobs_spec_views(rng, tier, C11_VIEWS, quick=10, thorough=100, nmax=9, length=None, big_exact=False,
                         ss_len=5 if tier == "quick" else 6)
    R = scale_n(tier, 1, 6)
    # all window lengths from the minimum to 20 and a few large ones
    for nm in C11_VIEWS:
        lo = dict(roof=2, cc=6).get(nm, 1)
        for n in list(range(lo, 21)) + [33, 50]:
            for _ in range(R):
                if nm == "lagf":
                    e = mk("lagf", ECHO, [F(n % 8, 8)])
                elif nm == "roof":
                    e = mk("roof", ECHO, [n, rng.randint(1, 6)])
                else:
                    e = mk(nm, ECHO, [n])
                L = min(n + rng.randint(8, 20), 40)
                fam, xs = gen.gen_stream(rng, L, n)
                js.append(SpecEq(e, xs))
                js.append(SpecEq(e, gen.gen_stream(rng, 120 if nm != "roof" else n + 130, n)[1], mode="f", rel=1e-8))
    # the same views chained over inner views that have a warm-up of their own: the difference equations must be driven by
    # the values the inner view DELIVERS (chain = stand-alone inner, then the view over Echo fed those values; f64, bitwise)
    for nm in C11_VIEWS:
        for _ in range(scale_n(tier, 4, 24)):
            n = rng.randint(dict(roof=2, cc=6).get(nm, 1), 9)
            outer = mk("lagf", ECHO, [F(rng.randint(1, 7), 8)]) if nm == "lagf" else (mk("roof", ECHO, [n, rng.randint(1, 5)]) if nm == "roof" else mk(nm, ECHO, [n]))
            inner = rng.choice([mk("sma", ECHO, [rng.randint(2, 6)]), mk("ss", ECHO, [rng.randint(2, 5)]), mk("roc", ECHO, [rng.randint(1, 4)]),
                                mk("ema", ECHO, [rng.randint(2, 5)]), mk("wo", ECHO, [rng.randint(3, 5)])])
            fam, xs = gen.gen_stream(rng, n + rng.randint(20, 40), n, positive=True)
            js.append(Decomp(outer, inner, xs))
    for _ in range(scale_n(tier, 30, 300)):
        k = rng.choice(["pfe", "eft"])
        ma = rng.choice([mk("ema", ECHO, [rng.randint(1, 4)]), mk("sma", ECHO, [rng.randint(1, 4)]), mk("emaa", ECHO, [rng.randint(1, 4), F(rng.choice([2, 3, 5]), 2)])])
        n = rng.randint(gen.TWO[k]["minN"], 9)
        e = (k, ECHO, ma, n)
        fam, xs = gen.gen_stream(rng, 3 * n + 10, n)
        js.append(SpecEq(e, xs))
        js += both_mode_corr(e, xs, n=n)
    js += outlier_jobs(rng, tier, ["pfe"], reps=scale_n(tier, 12, 60))
    return js


# ====================================================================== C12
def jobs_C12(rng, tier):
    js = []
    R = scale_n(tier, 6, 60)
    fams = ["ints", "dyadic8", "rampup", "rampdown", "spike", "sawtooth", "dyadic1024", "ties"]

    def ex(nm, n):
        if nm in ("pfe", "eft"):
            return (nm, ECHO, mk("ema", ECHO, [rng.randint(1, 3)]), max(n, gen.TWO[nm]["minN"]))
        if nm in ("lagf", "roof", "cc", "tflex", "rflex"):
            return rec_expr(rng, nm, n)
        return mk(nm, ECHO, gen.gen_params(rng, nm, 8, n=n))

    def tolp(e):
        return dict(tol=1e-9) if gen.has_transc(e) else {}

    for it in range(R):
        n = rng.randint(2, 8)
        a, b = F(rng.randint(1, 40), 8), F(rng.randint(-40, 40), 8)
        if it % 3 == 1:
            # very small / very large units: absolute thresholds hidden in a view show up only there
            a = F(2) ** rng.choice([-60, -40, -30, 30, 40, 60])
            b = b * a
        fam, xs = gen.gen_stream(rng, 3 * n + 8, n, families=fams)
        fam, pos = gen.gen_stream(rng, 3 * n + 8, n, families=fams, positive=True)
        nondeg = [x + F(t % 3, 16) for t, x in enumerate(xs)]
        # affine invariance
        for nm in ("hln", "vsct", "cti", "net", "eft"):
            e = ex(nm, n)
            # CTI correlates against the nominal window length while its window is still filling, so it is offset-invariant
            # only once the window is full (known finding K6, replayed from known_findings.json): compare from step N on
            sk = dict(skip=list(range(gen.window_of(e) - 1))) if nm == "cti" else {}
            js.append(Relation("same", e, [xs, [a * x + b for x in xs]], dict(map="id", **sk, **tolp(e))))
            if it % 4 == 0:
                # an offset far larger than the spread of the data (2^24 ... 2^40 against values below 2^7): a view that looks at
                # the values through a narrower type, or at x^2 before centring, loses the differences there
                big = F(2) ** rng.choice([24, 31, 40]) * rng.choice([1, -1])
                js.append(Relation("same", e, [xs, [x + big for x in xs]], dict(map="id", **sk, **tolp(e))))
        # scale invariance
        for nm in ("rsi", "myrsi", "lagrsi", "roc", "cog", "bent", "tflex", "rflex"):
            e = ex(nm, n)
            src = [x if x != 0 else F(1, 4) for x in xs] if nm == "roc" else xs
            js.append(Relation("same", e, [src, [a * x for x in src]], dict(map="id", **tolp(e))))
        e = ex("vst", n)
        # on a flat window Vst reports the value itself (C02), which scales: the invariance is for non-flat windows
        js.append(Relation("same", e, [nondeg, [a * x for x in nondeg]], dict(map="id", tol=1e-9, skip=flat_window_steps(nondeg, gen.window_of(e)))))
        for nm in ("lnret", "drawdown"):
            e = ex(nm, n)
            js.append(Relation("same", e, [pos, [a * x for x in pos]], dict(map="id", **tolp(e))))
        # homogeneity
        for nm in ("min", "max", "sma", "ema", "alma", "cum", "wo", "lagf", "ss", "roof", "cc", "wroll"):
            e = ex(nm, n)
            js.append(Relation("same", e, [xs, [a * x for x in xs]], dict(map="scale", a=a, **tolp(e))))
        # negation
        for nm in ("hln", "vsct", "vst", "myrsi", "cti", "net", "tflex", "rflex"):
            e = ex(nm, n)
            src = nondeg
            js.append(Relation("same", e, [src, [-x for x in src]], dict(map="neg", **tolp(e))))
        js.append(Relation("same", ex("rsi", n), [xs, [-x for x in xs]], dict(map="hundred_minus", skip=flat_steps(xs, n))))
        js.append(Relation("same", ECHO, [xs, [-x for x in xs]], dict(map="neg"), es=[mk("min", ECHO, [n]), mk("max", ECHO, [n])]))
    for nm in ("hln", "vsct", "cti", "net", "rsi", "myrsi", "roc", "cog", "min", "max", "vst", "wo"):
        for _ in range(max(2, R // 2)):
            e = mk(nm, ECHO, gen.gen_params(rng, nm, 8))
            fam, xs = stream_for(rng, e, 3 * gen.window_of(e) + 6)
            js += both_mode_corr(e, xs, n=gen.window_of(e))[1:]
    return js


# ====================================================================== C13
def jobs_C13(rng, tier):
    js = jobs_spec_views(rng, tier, ["wroll", "drawdown", "lnret"], quick=40, thorough=300,
                         fams=["ints", "dyadic8", "ties", "rampup", "rampdown", "spike", "sawtooth", "big_small", "dyadic1024"], length=40)
    # the `Default`-constructed views (`Drawdown::default()` etc.) are the same views over Echo
    for nm in sorted(gen.DEFAULTS):
        for _ in range(scale_n(tier, 8, 60)):
            e = (nm, ECHO)
            fam, xs = gen.gen_stream(rng, 30, 3, positive=True, families=["dyadic8", "rampup", "rampdown", "spike", "sawtooth", "decimal", "ties"])
            js.append(SpecEq(e, xs, acc=nm == "wroll_d"))
            js += both_mode_corr(e, xs, ["A"] if nm == "wroll_d" else [], n=1)
            js.append(Twin(e, xs, rng.randrange(10 ** 9), clone_pt=rng.choice([0, 1, 2, 5])))
    # long streams at f64 against the spec at f64 (rounding noise only)
    for nm in ("wroll", "drawdown", "lnret"):
        for _ in range(scale_n(tier, 2, 10)):
            e = mk(nm, ECHO, [])
            L = scale_n(tier, 400, 1500)
            xs = gen.stream(rng, "dyadic1024", L, positive=True)
            js.append(SpecEq(e, xs, acc=nm == "wroll", mode="f", rel=1e-7))
    # "without the error growing beyond rounding noise": a quiet series at a high level (2^20 … 2^30, steps of 1/64) in f64 against
    # the exact run — Welford's recurrence keeps the spread there, a sum of squares minus the square of the mean does not
    # (wave-5 seed C13e)
    for _ in range(scale_n(tier, 6, 30)):
        xs = [abs(x) for x in gen.stream(rng, "level", rng.choice([60, 400, 2000]), 4)]
        js.append(FpTrack(mk("wroll", ECHO, []), xs, 1e-5, max(float(max(xs) - min(xs)), 1 / 64), fam="level"))   # scale: the spread
    js += long_level_jobs(rng, tier)
    # the two scale-free rolling views at the ends of the f64 range (2^+-600, 2^520): the definition (peak - x)/peak and
    # ln(x_t/x_(t-1)) do not care about the unit; an implementation that forms products of two values does (wave-9 seed C13i:
    # Drawdown compared declines by cross-multiplication, which overflows to inf > inf = false above 1.3e154)
    for nm in ("drawdown", "lnret"):
        for _ in range(scale_n(tier, 6, 30)):
            unit = F(2) ** rng.choice([600, -600, 520, 900, -900])
            xs = [x * unit for x in gen.stream(rng, rng.choice(["dyadic8", "rampdown", "sawtooth", "spike"]), 30, positive=True)]
            js.append(SpecEq(mk(nm, ECHO, []), xs, mode="f", rel=1e-7))
    return js


def long_level_jobs(rng, tier):
    """"for streams of any length without the error growing beyond rounding noise": 12 000 (thorough: 60 000) values at a level of
    2^33 moving by multiples of 2^-12 (spread ~2e-3, i.e. 2e-13 of the level), f64 against the exact run, scale = the spread.
    Welford's recurrence tracks the spread to ~1e-3 of it there; an update that is skipped "because the mean did not move"
    (wave-7 seed C13g: in floating point the mean stops moving once (x - mean)/n drops below half an ulp of the level) loses
    most of the samples."""
    js = []
    for _ in range(scale_n(tier, 2, 6)):
        L = scale_n(tier, 12000, 60000)
        level = F(2) ** rng.choice([32, 33])
        xs = [level + F(rng.randint(0, 7), 4096) for _ in range(L)]
        js.append(FpTrack(mk("wroll", ECHO, []), xs, 2e-2, float(F(7, 4096)), fam="long_level", flat_from=L // 2))
    return js


# ====================================================================== C14
def rel_pointwise(job, outs):
    k = job.params["k"]
    clip = job.params.get("clip")
    for t, u in enumerate(outs[0]):
        child = outs[1][t] if len(outs) > 1 else None
        if k == "const":
            exp = float(job.params["c"])
        elif k == "echo":
            exp = float(job.streams[0][t])
        elif child is None:
            exp = None
        elif k == "tanh":
            exp = math.tanh(child)
        elif k == "gte":
            exp = max(child, float(clip))
        elif k == "lte":
            exp = min(child, float(clip))
        if exp is None:
            if u is not None:
                return ("step %d: value reported although the child has none" % (t + 1), None, u)
        elif u is None or enc_f(u) != enc_f(exp) and not (u == exp == 0):
            return ("step %d: %s is not the pointwise function of the child's current output %r" % (t + 1, k, child), exp, u)


RELATIONS["pointwise"] = rel_pointwise


class EchoBits(Job):
    """Echo must report the latest input bit for bit — also for signed zeros, subnormals and the extremes of the range
    (wave-5 seed C01e: Echo flushed subnormal inputs and -0.0 to +0.0); `inner` optionally wraps it in identity-like
    combinators (GTE with a clip of -max, Add with Constant 0 is NOT one: -0 + 0 = +0)."""
    kind = "echobits"

    def __init__(self, bits):
        self.e, self.bits = ECHO, bits

    def impl_cases(self):
        return [Case("f", gen.render(ECHO, "f"), ["X " + b for b in self.bits])]

    def impl_rel_cases(self):
        return self.impl_cases()

    def decide(self, impl, rel, model):
        for name, lines in (("debug assertions on", impl[0]), ("debug assertions off", rel[0])):
            for t, (b, l) in enumerate(zip(self.bits, lines)):
                if l != "S " + b:
                    return dict(explanation="step %d (%s): Echo was given the f64 bit pattern %s (%r) and reports %s" % (t + 1, name, b, dec_f(b), l),
                                expected="S " + b, actual=l)
        return None

    def nontrivial_key(self, impl):
        return ("echobits", tuple(self.bits))

    def to_json(self):
        return dict(kind=self.kind, bits=self.bits)

    @staticmethod
    def from_json(d):
        return EchoBits(d["bits"])

    def shrink_candidates(self):
        return [EchoBits(self.bits[:-1]), EchoBits(self.bits[1:])] if len(self.bits) > 1 else []


JOB_KINDS["echobits"] = EchoBits


def jobs_C14(rng, tier):
    js = []
    for _ in range(scale_n(tier, 6, 40)):
        # tanh on a fine grid over [-40, 40] (every multiple of 1/16, shuffled): a shortcut for "saturated" arguments that kicks in
        # too early is one or two ulps off in a narrow band only (wave-6 seed C14f: +-1 reported for 18.02 < |v| < 19.06)
        grid = [F(k, 16) for k in range(-640, 641)]
        rng.shuffle(grid)
        part = grid[: 400]
        js.append(Relation("pointwise", ("tanh", ECHO), [part, part], dict(k="tanh", domain_ok=True), mode="f", es=[("tanh", ECHO), ECHO]))
        js.append(EchoBits([rng.choice(SPECIAL_BITS + ["0000000000000005", "800fffffffffffff", "7fefffffffffffff", "ffefffffffffffff",
                                                      "0008000000000000", "3cb0000000000000"]) for _ in range(rng.randint(4, 16))]))
    for _ in range(scale_n(tier, 40, 400)):
        # GTE/LTE cache their answer, so "function of the child's current output" presupposes a child whose
        # readiness never reverts (every catalogue view, C08): probe scripts here are None-prefix-then-values
        child = gen.norelapse(gen.gen_tree(rng, rng.randint(0, 2), True))
        pos = gen.needs_positive(child) or "div" in gen.tree_names(child)
        fam, xs = gen.gen_stream(rng, rng.randint(8, 24), 3, positive=pos)
        clip = F(rng.randint(-12, 12), 4)
        if rng.random() < 0.3 and xs:
            clip = xs[rng.randrange(len(xs))]   # equality with the clip
        for k, e in (("tanh", ("tanh", child)), ("gte", mk("gte", child, [clip])), ("lte", mk("lte", child, [clip]))):
            js.append(Relation("pointwise", e, [xs, xs], dict(k=k, clip=clip, domain_ok=True), mode="f", es=[e, child]))
            js.append(Corr(e, "f", xs_ops("f", xs), "pattern"))
        js.append(Relation("pointwise", ECHO, [xs], dict(k="echo"), mode="f"))
        c = F(rng.randint(-40, 40), 8)
        js.append(Relation("pointwise", ("const", c), [xs], dict(k="const", c=c), mode="f"))
        op = rng.choice(gen.BINOPS)
        b = gen.gen_tree(rng, rng.randint(0, 2), True) if op != "div" else rng.choice([("const", F(rng.choice([-3, -1, 2, 5]), 2)), mk("max", ECHO, [3])])
        fam, ys = gen.gen_stream(rng, rng.randint(8, 24), 3, positive=True)
        js.append(Relation("binop", (op, child, b), [ys, ys, ys], dict(op=op, domain_ok=True), mode="f", es=[(op, child, b), child, b]))
        js.append(Corr((op, child, b), "f", xs_ops("f", ys), "pattern"))
        # extreme units (seed C14d: Divide replaced divisors below T::epsilon()): the four operations on children whose
        # outputs are in units of 2^-70 ... 2^-500 / 2^70, against IEEE arithmetic done here, bit for bit
        unit = F(2) ** rng.choice([-70, -70, -120, -500, 70, -52, -53, -60])
        cz = F(rng.choice([-5, -3, -1, 1, 2, 7])) * unit
        kids = [ECHO, ("const", cz), mk("gte", ECHO, [cz]), mk("lte", ECHO, [cz]), mk("sma", ECHO, [2]), mk("max", ECHO, [2])]
        op2 = rng.choice(gen.BINOPS)
        a2, b2 = rng.choice(kids), rng.choice(kids)
        zs = [F(rng.choice([-9, -4, -3, -1, 1, 2, 3, 5, 8])) * unit for _ in range(rng.randint(6, 14))]
        if unit < 1 or op2 != "mul":
            js.append(Relation("binop", (op2, a2, b2), [zs, zs, zs], dict(op=op2, domain_ok=True), mode="f", es=[(op2, a2, b2), a2, b2]))
        # results that overflow to +-inf or underflow to 0 / subnormals (wave-7 seed C14g: Divide replaced a non-finite quotient by
        # the previous finite one): finite children, IEEE result, bit for bit, whatever came before
        hu, ti = F(2) ** rng.choice([1000, 1020, 900]), F(2) ** rng.choice([-1000, -1060, -900, -200])
        op3 = rng.choice(gen.BINOPS)
        ca = F(rng.choice([-3, -1, 1, 5])) * hu
        a3 = rng.choice([("const", ca), ECHO])
        pool = {"div": [ti, ti * 3, -ti, F(2), hu], "mul": [hu, -hu, F(3), ti], "add": [hu, hu * 3, -hu, F(1)], "sub": [-hu, -hu * 3, hu, F(1)]}[op3]
        if a3 == ECHO:
            # both operands are the input: x op x overflows for mul / add at the huge end
            zs3 = [F(rng.choice([-3, -1, 1, 2])) * rng.choice([hu, ti, F(1), F(2) ** 600]) for _ in range(rng.randint(6, 12))]
            b3 = rng.choice([ECHO, ("const", rng.choice(pool))])
        else:
            zs3 = [F(rng.choice([-3, -1, 1, 2])) * rng.choice(pool) for _ in range(rng.randint(6, 12))]
            b3 = ECHO
        js.append(Relation("binop", (op3, a3, b3), [zs3, zs3, zs3], dict(op=op3, domain_ok=True), mode="f", es=[(op3, a3, b3), a3, b3]))
        # value-level correspondence on trees made of combinators and leaves only
        pe = gen.gen_pure_tree(rng, rng.randint(1, 3))
        js.append(Corr(pe, "f", xs_ops("f", ys), "f64"))
        js.append(Corr(pe, "q", xs_ops("q", ys), "exact"))
    return js


# ====================================================================== C15
def jobs_C15(rng, tier):
    js = []
    R = scale_n(tier, 1, 4)
    fams = ["ints", "dyadic8", "ties", "zeros", "rampup", "spike", "flat_after_volatile", "sawtooth", "decimal", "const_decimal", "fav_decimal"]

    def ops_for(xs, mode="f"):
        ops = []
        for x in xs:
            ops.append(("X " if rng.random() < 0.6 else "U ") + enc(mode, x))
            while rng.random() < 0.25:
                ops.append("L")
        return ops + ["L"]

    ns = list(range(1, 13)) + [16, 31, 64] if tier == "quick" else list(range(1, 65))
    for nm in gen.UNARY + ["pfe", "eft"]:
        for n in ns:
            for _ in range(R):
                if nm in ("pfe", "eft"):
                    e = (nm, ECHO, gen.gen_ma(rng), n)
                else:
                    e = mk(nm, ECHO, gen.gen_params(rng, nm, 8, n=n))
                rejected = (nm in ("min", "max", "wo", "vst", "vsct") and n == 0) or (nm == "cc" and n < 6) or (nm == "pfe" and n < 3) or (nm == "roof" and n < 2)
                L = rng.choice([1, 2, 3, n // 2 + 1, n + 2, 2 * n + 5])
                pos = gen.needs_positive(e)
                fam = rng.choice(fams)
                xs = gen.stream(rng, fam, L, n, positive=pos) if rng.random() < 0.85 else [F(rng.randint(-3, 3))] * L
                if pos:
                    xs = [x if x > 0 else F(1) for x in xs]
                if "n" not in gen.CATALOGUE.get(nm, dict(params=["n"]))["params"] and n > 3:
                    continue
                if rejected:
                    js.append(Corr(e, "f", ops_for(xs), "pattern", both_builds=True))
                else:
                    js.append(NoPanic(e, "f", ops_for(xs)))
                    if rng.random() < 0.3:
                        js.append(Corr(e, "f", ops_for(xs), "pattern", both_builds=True))
                    if rng.random() < 0.35 and all(abs(x) < 4096 and x.denominator <= 1024 for x in xs):
                        js.append(NoPanic(e, "s", ops_for(xs)))   # the f32 instance, on values that are exact in f32
    # narrow Alma kernels: rejected by the constructor or panic-free (defect D18), on both builds, agreeing with the model
    for n in (1, 2, 3, 5, 10):
        for sg in (12, 40, 64, 128):
            e = mk("almac", ECHO, [n, F(sg), F(rng.choice([1, 4, 6, 7]), 8)])
            xs = gen.stream(rng, rng.choice(["ints", "dyadic8", "rampup"]), 2 * n + 6, n)
            js.append(Corr(e, "f", ops_for(xs), "pattern", both_builds=True))
            js.append(NoPanic(e, "s", ops_for(xs)))
    # two-level chains
    for _ in range(scale_n(tier, 150, 1500)):
        e = gen.gen_tree(rng, 2, False)
        names = gen.tree_names(e)
        pos = gen.needs_positive(e) or "div" in names
        fam = rng.choice(fams)
        xs = gen.stream(rng, fam, rng.randint(1, 40), 3, positive=pos)
        if ("drawdown" in names or "lnret" in names or "div" in names) and len(names) > 2:
            # inner outputs may leave the domain: compare with the model (where the finiteness assertion fires because of an
            # inner view's rounding residue the comparison is inconclusive: harmless rewrite H03)
            js.append(Corr(e, "f", ops_for(xs), "pattern", both_builds=True, risky=True))
        else:
            js.append(NoPanic(e, "f", ops_for(xs)))
    return js


# ====================================================================== C16
class FpTrack(Job):
    """the same Rust generic code at f64 (or f32) and at Q on the same stream: |f - exact| <= eps * scale"""
    kind = "fptrack"

    def __init__(self, e, xs, eps, scale_kind, fmode="f", fam=None, flat_from=None, expect=None):
        if fmode == "s":
            # the f32 run receives the inputs rounded to f32: the exact run must be given the same values, otherwise the
            # comparison measures the rounding of the INPUTS (which no view can undo), not the view
            import struct
            xs = [F(struct.unpack("f", struct.pack("f", float(x)))[0]) for x in xs]
        self.e, self.xs, self.eps, self.scale_kind, self.fmode, self.fam, self.flat_from, self.expect = e, xs, eps, scale_kind, fmode, fam, flat_from, expect

    def impl_rel_cases(self):
        return [Case(self.fmode, gen.render(self.e, self.fmode), xs_ops(self.fmode, self.xs)),
                Case("q", gen.render(self.e, "q"), xs_ops("q", self.xs))]

    def decide(self, impl, rel, model):
        f = outputs("f", rel[0])
        q = outputs("q", rel[1])
        scale = float(max(abs(x) for x in self.xs)) if self.scale_kind == "value" else float(self.scale_kind)
        scale = max(scale, 1e-300)
        for t, (u, v) in enumerate(zip(f, q)):
            if self.flat_from is not None and t < self.flat_from:
                continue
            if isinstance(u, tuple) or isinstance(v, tuple):
                return dict(explanation="panic at step %d (%s / %s)" % (t + 1, u, v), expected="no panic", actual=str((u, v)))
            if u is None or v is None:
                if (u is None) != (v is None):
                    return dict(explanation="readiness differs between f64 and exact at step %d" % (t + 1), expected=str(v), actual=str(u))
                continue
            if u != u or abs(u - float(v)) > self.eps * scale:
                return dict(explanation="step %d: floating-point result %r is further than %g x scale (%g) from the exact result %r (family %s)"
                            % (t + 1, u, self.eps, scale, float(v), self.fam), expected=float(v), actual=u)
        return None

    def nontrivial_key(self, impl):
        return (gen.render(self.e, "q"), tuple(self.xs[:50]), len(self.xs))

    def to_json(self):
        return dict(kind=self.kind, e=jexpr(self.e), xs=jvals(self.xs), eps=self.eps, scale_kind=self.scale_kind, fmode=self.fmode,
                    fam=self.fam, flat_from=self.flat_from)

    @staticmethod
    def from_json(d):
        return FpTrack(uexpr(d["e"]), uvals(d["xs"]), d["eps"], d["scale_kind"], d.get("fmode", "f"), d.get("fam"), d.get("flat_from"))

    def shrink_candidates(self):
        if self.flat_from is not None or len(self.xs) < 4:
            return []
        h = len(self.xs) // 2
        return [FpTrack(self.e, self.xs[:h], self.eps, self.scale_kind, self.fmode, self.fam),
                FpTrack(self.e, self.xs[:-1], self.eps, self.scale_kind, self.fmode, self.fam)]


JOB_KINDS["fptrack"] = FpTrack


def const_exact(e, c, t):
    """exact output of view `e` (over Echo) after t+1 copies of the constant c > 0 (None = not reported yet)"""
    nm = e[0]
    n = gen.window_of(e)
    k = t + 1
    if nm in ("sma", "ema"):
        return c if k >= n else None
    if nm in ("alma", "min", "max", "lagf"):
        return c
    if nm == "cum":
        return c * min(k, n)
    if nm in ("wo", "vsct"):
        return F(0) if k >= n - 1 else None
    if nm == "cti":
        return F(0) if k >= n else None     # while the window fills CTI correlates a zero-padded window: not 0
    if nm in ("hln", "roc", "cog", "bent", "wroll", "drawdown"):
        return F(0)
    if nm == "net":
        return F(0) if (k >= 2 and n >= 2) else None
    if nm == "lnret":
        return F(0) if k >= 2 else None
    raise KeyError(nm)


class FpConst(Job):
    """a long constant stream at f64 against the closed-form exact answer: |f - exact| <= eps * scale at EVERY step"""
    kind = "fpconst"

    def __init__(self, e, c, L, eps):
        self.e, self.c, self.L, self.eps = e, c, L, eps
        self.fam = "long_constant"

    def impl_rel_cases(self):
        return [Case("f", gen.render(self.e, "f"), ["X " + enc_f(self.c)] * self.L)]

    def decide(self, impl, rel, model):
        lines = rel[0]
        sk = C16_SCALE.get(self.e[0], "value")
        scale = float(self.c) if sk in ("value", "cog", "roc", "vst") else float(sk)
        if self.e[0] == "cum":
            scale = float(self.c) * gen.window_of(self.e)
        if self.e[0] == "cog":
            scale = float(gen.window_of(self.e))
        if self.e[0] == "roc":
            scale = 100.0
        if len(lines) != self.L:
            return dict(explanation="run stopped after %d of %d values: %s" % (len(lines), self.L, lines[-1:]), expected="no panic", actual=str(lines[-1:]))
        n = gen.window_of(self.e)
        steady = const_exact(self.e, self.c, n + 2)
        steady_line = None
        for t, l in enumerate(lines):
            if t > n + 2 and l == steady_line:
                continue          # same bytes as a line already accepted in the steady regime
            ex = const_exact(self.e, self.c, t) if t <= n + 2 else steady
            if l[0] == "N":
                if ex is not None:
                    return dict(explanation="step %d: no output, exact run has %s" % (t + 1, ex), expected=float(ex), actual=None)
                continue
            if l[0] != "S":
                return dict(explanation="step %d: %s" % (t + 1, l), expected="value", actual=l)
            if ex is None:
                continue   # readiness is C08's business
            v = dec_f(l[2:])
            if t > n + 2 and not (v != v or abs(v - float(ex)) > self.eps * scale):
                steady_line = l
            if v != v or abs(v - float(ex)) > self.eps * scale:
                return dict(explanation="step %d of a constant stream of %s: f64 result %r is further than %g x scale (%g) from the exact result %r"
                            % (t + 1, self.c, v, self.eps, scale, float(ex)), expected=float(ex), actual=v)
        return None

    def nontrivial_key(self, impl):
        return (gen.render(self.e, "q"), str(self.c), self.L)

    def to_json(self):
        return dict(kind=self.kind, e=jexpr(self.e), c=str(self.c), L=self.L, eps=self.eps)

    @staticmethod
    def from_json(d):
        return FpConst(uexpr(d["e"]), F(d["c"]), d["L"], d["eps"])

    def shrink_candidates(self):
        return [FpConst(self.e, self.c, self.L // 2, self.eps)] if self.L > 2000 else []


JOB_KINDS["fpconst"] = FpConst

# natural scale of each view's output: 'value' = largest input magnitude, otherwise the width of its range
C16_SCALE = dict(sma="value", ema="value", alma="value", cum="value", min="value", max="value", wo="value", wroll="value",
                 lagf="value", ss="value", roof="value", cc="value", rsi=100, myrsi=2, hln=2, cti=2, net=2, vsct=2, vst="vst",
                 bent=1, lagrsi=1, cog="cog", roc="roc", tflex=4, rflex=4, drawdown=1, lnret=1, gte="value", lte="value")
WINDOWED = ["sma", "cum", "min", "max", "wo", "hln", "bent", "cog", "cti", "net", "rsi", "myrsi", "vsct", "alma", "roc", "vst"]


def three_decades(rng, L, signed=True):
    """values whose non-zero magnitudes and non-zero steps span at most three decades: k/8 with 1 <= |k| <= 1000*... kept to [1/8, 125]"""
    xs = []
    # a common factor with a long mantissa makes sums and differences really round, while magnitudes and steps
    # stay within three decades (both are multiples of c/8 between c/8 and 125c)
    c = F(2 ** 30 + rng.randrange(1, 2 ** 20), 2 ** 30) if rng.random() < 0.6 else F(1)
    for _ in range(L):
        k = rng.randint(1, 1000)
        xs.append(F(k, 8) * c * (rng.choice([-1, 1]) if signed else 1))
    return xs


def jobs_C16(rng, tier):
    js = []
    L = scale_n(tier, 3000, 100000)
    for nm in WINDOWED:
        for _ in range(scale_n(tier, 2, 4)):
            n = rng.randint(2, 12)
            e = mk(nm, ECHO, gen.gen_params(rng, nm, 12, n=n))
            xs = three_decades(rng, L, signed=nm not in ("roc", "cog", "vst"))
            sk = C16_SCALE[nm]
            if sk in ("vst", "cog", "roc"):
                sk = dict(vst=1000.0, cog=float(n), roc=1e5)[sk]
            js.append(FpTrack(e, xs, 1e-6, sk, fam="three_decades"))
            js.append(FpTrack(e, xs[: min(L, 2000)], 1e-2, sk, fmode="s", fam="three_decades_f32"))
        # one longer f32 stream per view: drift that grows with the stream length shows here first
        n = rng.randint(2, 6)
        e = mk(nm, ECHO, gen.gen_params(rng, nm, 12, n=n))
        sk = C16_SCALE[nm]
        if sk in ("vst", "cog", "roc"):
            sk = dict(vst=1000.0, cog=float(n), roc=1e5)[sk]
        js.append(FpTrack(e, three_decades(rng, scale_n(tier, 10000, 20000), signed=nm not in ("roc", "cog", "vst")), 1e-2, sk, fmode="s",
                          fam="three_decades_f32_long"))
    for nm in ("ema", "lagf", "ss", "roof", "cc", "wroll", "drawdown", "lnret", "lagrsi", "tflex", "rflex"):
        for _ in range(scale_n(tier, 2, 4)):
            n = rng.randint(3, 9)
            e = rec_expr(rng, nm, n) if nm in ("lagf", "roof", "cc", "tflex", "rflex") else mk(nm, ECHO, gen.gen_params(rng, nm, 9, n=n))
            Lr = (10 ** 4 if tier == "thorough" else 2000) if nm in ("wroll", "drawdown", "lnret") else 60
            xs = three_decades(rng, Lr, signed=nm not in ("drawdown", "lnret"))
            js.append(FpTrack(e, xs, 1e-6, C16_SCALE[nm], fam="three_decades"))
    # a quiet series at a high level (values near 10^6 ... 10^9 moving in steps of 1/64): the dynamic range of the VALUES is 1, but
    # a sum of squares minus the square of the sum, or a threshold relative to the level, loses the spread (wave-5 seeds C13e,
    # C16e).  Views that are ill-conditioned here already in the unchanged crate are left out (CTI: K5; Vst/Vsct: Welford's m2
    # drift, K3/K4; LaguerreRSI's ratio of tiny sums).
    for nm in ("sma", "cum", "min", "max", "wo", "hln", "bent", "cog", "net", "rsi", "myrsi", "alma", "roc", "ema", "lagf", "ss", "cc", "wroll",
               "tflex", "rflex"):
        for _ in range(scale_n(tier, 2, 12)):
            n = rng.randint(2, 12)
            e = rec_expr(rng, nm, max(n, 6)) if nm in ("lagf", "cc", "tflex", "rflex") else mk(nm, ECHO, gen.gen_params(rng, nm, 12, n=n))
            # (exact rationals of the recursive filters grow with every step: short runs for those)
            xs = gen.stream(rng, "level", 40 if nm in ("ema", "lagf", "ss", "cc", "tflex", "rflex") else rng.choice([60, 400]), n)
            if nm in ("roc", "cog"):
                xs = [abs(x) for x in xs]
            sk = C16_SCALE[nm]
            if sk in ("cog", "roc"):
                sk = dict(cog=float(n), roc=1e5)[sk]
            js.append(FpTrack(e, xs, 1e-6, sk, fam="level"))
    # ordinary shapes in units of 2^-40 / 2^-70 (a bounded dynamic range, only a small unit): every view here is homogeneous or
    # scale-free, so its f64 output must track the exact one as it does at unit scale — unless an ABSOLUTE threshold sits in the
    # code (wave-6 seed C16f: Roc treated |base| < epsilon as a zero base).  Views with known residue problems on flat windows
    # (K3) are left out.
    for nm in ("sma", "cum", "min", "max", "hln", "bent", "cog", "net", "alma", "roc", "ema", "lagf", "ss", "cc", "wroll", "lagrsi", "tflex",
               "rflex", "drawdown", "lnret"):
        for _ in range(scale_n(tier, 2, 12)):
            n = rng.randint(2, 12)
            e = rec_expr(rng, nm, max(n, 6)) if nm in ("lagf", "cc", "tflex", "rflex") else mk(nm, ECHO, gen.gen_params(rng, nm, 12, n=n))
            xs = gen.stream(rng, "tiny", 40 if nm in ("ema", "lagf", "ss", "cc", "tflex", "rflex", "lagrsi") else rng.choice([60, 300]), n)
            if nm in ("roc", "cog", "drawdown", "lnret"):
                xs = [abs(x) + F(1, 2 ** 45) for x in xs]
            sk = C16_SCALE[nm]
            if sk in ("cog", "roc"):
                sk = dict(cog=float(n), roc=1e5)[sk]
            js.append(FpTrack(e, xs, 1e-6, sk, fam="tiny"))
            if nm in ("sma", "cum", "min", "max", "hln", "roc", "bent", "wroll", "drawdown", "lnret"):
                # ... and must equal the DEFINITION evaluated in f64 (wave-9 seed C16i: Sma rounded its running sum to a 2^-40 grid
                # with T::round, which the exact run of the same code does as well -- f64 and exact run then agree with each other
                # and both disagree with the mean)
                js.append(SpecEq(e, xs, mode="f", rel=1e-6, scale=float(max(abs(x) for x in xs)) if nm in ("sma", "cum", "min", "max", "wroll") else 1))
    # long CONSTANT streams: the exact answer is known in closed form, so only the f64 run is needed (10^6 values)
    for nm in ("wroll", "drawdown", "lnret"):
        for it in range(scale_n(tier, 2, 6)):
            c = F(rng.choice([8001, 6222, 802, 7997, 26, 9877]), 8) + F(rng.randrange(1, 2 ** 20), 2 ** 30)
            js.append(FpConst(mk(nm, ECHO, []), c, scale_n(tier, 1000000, 1000000), 1e-6))
        # and one long small-spread stream against the exact run
        c = F(rng.choice([8001, 802, 9877]), 8) + F(rng.randrange(1, 2 ** 20), 2 ** 30)
        js.append(FpTrack(mk(nm, ECHO, []), [c + F(rng.randint(0, 2), 8) for _ in range(scale_n(tier, 60000, 1000000))], 1e-6,
                          C16_SCALE[nm], fam="long_small_spread"))
    for nm in ("sma", "ema", "alma", "cum", "min", "max", "wo", "vsct", "hln", "roc", "cti", "net", "cog", "lagf", "bent"):
        n = rng.randint(2, 12)
        e = rec_expr(rng, nm, n) if nm == "lagf" else mk(nm, ECHO, gen.gen_params(rng, nm, 12, n=n))
        c = F(rng.choice([8001, 6222, 802, 26]), 8) + F(rng.randrange(1, 2 ** 20), 2 ** 30)
        js.append(FpConst(e, c, scale_n(tier, 100000, 1000000), 1e-6))
    # volatile stretch followed by at least a full window of identical values
    flat_expect = ["rsi", "myrsi", "vst", "vsct", "wo", "hln", "cti", "net", "roc", "sma", "ema", "alma", "cum", "min", "max", "cog", "bent"]
    for nm in flat_expect:
        for _ in range(scale_n(tier, 6, 60)):
            n = rng.randint(2, 10)
            e = mk(nm, ECHO, gen.gen_params(rng, nm, 10, n=n))
            k = rng.randint(5, 60)
            big = rng.choice([1, 1, 1, 10 ** 6, 10 ** 12]) if nm in ("cog", "bent", "hln", "cti", "net", "min", "max") else 1
            vol = [(F(rng.randint(-1000, 1000), 8) + F(rng.getrandbits(44), 2 ** 47) * rng.choice([0, 1])) * rng.choice([1, 1, 100]) * big for _ in range(k)]
            if nm == "cog":
                vol = [abs(v) + F(1, 8) for v in vol]
            c = F(rng.randint(1, 400), 8) * (rng.choice([-1, 1]) if nm != "cog" else 1)
            flat = [c] * (n + 1 + rng.randint(0, 4))
            sk = C16_SCALE[nm]
            if sk in ("vst", "roc", "cog"):
                sk = dict(vst="value", roc=100.0, cog=float(n))[sk]
            # ema is a recursive average: it has not converged after N+1 values even exactly; compared with the exact result anyway
            js.append(FpTrack(e, vol + flat, 1e-4, sk, fam="flat_after_volatile", flat_from=k + n))
    # the same for two-level chains: a normaliser / order statistic over an averaging or extremum view.  After a volatile
    # stretch of generic 53-bit values and a flat stretch longer than both windows the inner view must hand the outer one a
    # CONSTANT sequence (its rounding residue may be non-zero but must not change from step to step), otherwise the outer view
    # amplifies a few ulps to a full-scale answer (wave-4 seed C16d: Sma re-summed its window every N updates; HLNormalizer
    # over it reported +-1 on a flat window).  Outer views whose own running sums already keep residue in the unchanged crate
    # (Rsi, MyRSI, Vst, Vsct: K3) are not used here.
    for _ in range(scale_n(tier, 240, 2000)):
        o = rng.choice(["hln", "hln", "net", "net", "cti", "wo", "bent", "cog", "min", "max", "roc"])
        # (not over Alma: its incrementally maintained weighted sum changes by an ulp from step to step on a flat window, which
        # a normaliser over it amplifies to +-1 in the unchanged crate — known finding K7)
        i = rng.choice(["sma", "sma", "sma", "cum", "cum", "min", "max", "hln"] + ([] if o == "roc" else ["wo"]))
        ni, no = rng.choice([2, 3, 3, 5, 6, 7, 7, 8, 9, 10, 12]), rng.randint(2, 8)
        e = mk(o, mk(i, ECHO, gen.gen_params(rng, i, 8, n=ni)), gen.gen_params(rng, o, 8, n=no))
        k = rng.randint(5, 40)
        dc = lambda: F(float(F(rng.randint(-2000, 2000), 10 ** rng.choice([1, 1, 2, 3])) * rng.choice([1, 1, 1, 100])))
        vol = [dc() for _ in range(k)]
        c = F(float(rng.choice([F(3, 10), F(7, 10), F(1001, 10), F(1234, 100), dc()])))
        if o in ("cog", "roc"):
            vol = [abs(v) + F(1, 8) for v in vol]
            c = abs(c) + F(1, 8)
        flat = [c] * (ni + no + 1 + rng.randint(0, 2 * ni + 2))
        sk = C16_SCALE[o]
        if sk in ("vst", "roc", "cog"):
            sk = dict(vst="value", roc=100.0, cog=float(no))[sk]
        js.append(FpTrack(e, vol + flat, 1e-4, sk, fam="chain_flat_after_volatile", flat_from=k + ni + no))
    return js


# ====================================================================== C17
class Twin(Job):
    """the same inputs, once plainly and once with repeated last() calls and clones taken and fed divergent
    continuations in between: the original's outputs must be bit-identical; a clone continues like the original"""
    kind = "twin"

    def __init__(self, e, xs, noise_seed, mode="f", clone_pt=None):
        # clone_pt: take the clones after that many values (0 = clones of the fresh view); None = drawn from noise_seed
        self.e, self.xs, self.noise_seed, self.mode, self.clone_pt = e, xs, noise_seed, mode, clone_pt

    def plan(self):
        rng = random.Random(self.noise_seed)
        ops, marks = [], []   # marks: indices of output lines belonging to the main sequence
        self.repeats = []     # (line of a repeated last(), line of the update's own last()) : must be equal
        clonable = "add" not in gen.tree_names(self.e)
        line = 0
        clone_at = rng.randrange(len(self.xs)) if clonable and self.xs else None
        if clone_at is not None and rng.random() < 0.6:
            # prefer the moments where a clone is most likely to differ from its original: warm-up and the first wrap-around
            w = gen.window_of(self.e)
            clone_at = min(len(self.xs) - 1, rng.choice([0, 0, max(0, w - 2), w - 1, w, rng.randint(0, 2 * w)]))
        if clonable and self.xs and self.clone_pt is not None:
            clone_at = min(self.clone_pt, len(self.xs)) - 1

        def take_clones(x):
            nonlocal line
            ops.append("K 0"); line += 1
            # feed the clone something else, then come back: must not affect the original
            ops.append("W 0")
            for _ in range(rng.randint(1, 4)):
                ops.append("X " + enc(self.mode, x + rng.randint(1, 5))); line += 1
            ops.append("W 0")
            ops.append("K 1"); line += 1   # a second clone of the original, fed the same continuation later
        if clone_at == -1:
            take_clones(self.xs[0])
        for t, x in enumerate(self.xs):
            ops.append("X " + enc(self.mode, x)); marks.append(line); line += 1
            for _ in range(rng.choice([0, 0, 1, 2, 3])):
                ops.append("L"); self.repeats.append((line, marks[-1])); line += 1
            if clone_at == t:
                take_clones(x)
        self.clone_at = clone_at
        return ops, marks

    def impl_cases(self):
        ops, marks = self.plan()
        cs = [Case(self.mode, gen.render(self.e, self.mode), xs_ops(self.mode, self.xs)),
              Case(self.mode, gen.render(self.e, self.mode), ops)]
        if self.clone_at is not None:
            # continue clone 1 with the same remaining inputs
            rest = self.xs[self.clone_at + 1:]
            cs.append(Case(self.mode, gen.render(self.e, self.mode), ops + ["W 1"] + xs_ops(self.mode, rest)))
        # the same inputs, read only now and then ("calling last() any number of times between updates changes nothing" — also
        # ZERO times: wave-6 seed C17f memoised last() in a Cell and forgot to clear the memo on one update path, so a view that
        # had been polled answered differently from one that had not)
        cs.append(Case(self.mode, gen.render(self.e, self.mode),
                       [("X " if t in self.sparse_reads() else "U ") + enc(self.mode, x) for t, x in enumerate(self.xs)]))
        return cs

    def sparse_reads(self):
        rng = random.Random(self.noise_seed * 31 + 7)
        n = len(self.xs)
        return {t for t in range(n) if rng.random() < 0.3} | ({n - 1} if n else set())

    def decide(self, impl, rel, model):
        ops, marks = self.plan()
        plain, noisy = impl[0], impl[1]
        if any(l.startswith("P") for l in plain) or any(l.startswith("P") for l in noisy):
            return None   # the stream (or the clone's divergent continuation) left the view's domain; C15 covers panics
        for (r, m0) in self.repeats:
            if r < len(noisy) and m0 < len(noisy) and noisy[r] != noisy[m0]:
                return dict(explanation="last() called again without an update in between reports something else (output line %d vs %d)" % (r, m0),
                            expected=noisy[m0], actual=noisy[r])
        for k, m in enumerate(marks):
            if m >= len(noisy) or k >= len(plain) or noisy[m] != plain[k]:
                return dict(explanation="step %d: output differs once last() is called repeatedly / a clone is fed other inputs" % (k + 1),
                            expected=plain[k] if k < len(plain) else None, actual=noisy[m] if m < len(noisy) else None)
        sparse = [l for l in impl[-1] if l[:1] in "SNP"]
        for k, l in zip(sorted(self.sparse_reads()), sparse):
            if k < len(plain) and l != plain[k]:
                return dict(explanation="step %d: a view that is read after every update reports %s, the same view read only now and then reports %s"
                            % (k + 1, plain[k], l), expected=plain[k], actual=l)
        if self.clone_at is not None:
            cont = impl[2][len(noisy):]
            exp = plain[self.clone_at + 1:]
            if cont != exp:
                return dict(explanation="a clone taken after value %d does not continue like the original" % (self.clone_at + 1),
                            expected=exp[:3], actual=cont[:3])
        return None

    def nontrivial_key(self, impl):
        return _nontriv((gen.render(self.e, "q"), tuple(self.xs), self.noise_seed), outputs(self.mode, impl[0]), 1)

    def to_json(self):
        return dict(kind=self.kind, e=jexpr(self.e), xs=jvals(self.xs), noise_seed=self.noise_seed, mode=self.mode,
                    clone_pt=self.clone_pt)

    @staticmethod
    def from_json(d):
        return Twin(uexpr(d["e"]), uvals(d["xs"]), d["noise_seed"], d.get("mode", "f"), d.get("clone_pt"))


JOB_KINDS["twin"] = Twin


def source_audit():
    """non-test source of the crate must not contain interior mutability / globals / randomness, and `last` takes &self"""
    import re
    bad = []
    pat = re.compile(r"\bCell<|RefCell|Atomic[A-Z]|static\s+mut|thread_local|\bunsafe\b|\bRc<|\bArc<|\brand::|Mutex|RwLock|OnceCell|lazy_static|SystemTime|Instant::")
    n_last = 0
    for root, _, files in os.walk(os.path.join(core.REPO, "src")):
        for f in files:
            if not f.endswith(".rs") or f in ("plot.rs", "test_data.rs"):
                continue
            src = open(os.path.join(root, f)).read()
            src = src.split("#[cfg(test)]")[0]
            src_nc = "\n".join(l.split("//")[0] for l in src.split("\n"))
            m = pat.search(src_nc)
            if m:
                bad.append("%s: %s" % (f, m.group(0)))
            for m in re.finditer(r"fn\s+last\s*\(([^)]*)\)", src_nc):
                n_last += 1
                if m.group(1).strip() != "&self":
                    bad.append("%s: last(%s)" % (f, m.group(1).strip()))
    return bad, n_last


class Bracket(Job):
    """"Two views built with the same parameters and fed the same inputs report bit-identical outputs" — also when other views
    have lived in the same thread in between.  One process runs, in this order: the view at f64; the same view at f32; a view
    of the same kind with a different window at f64; the view at f32 again; the view at f64 again.  The first and the last run
    must agree bit for bit (wave-5 seed C17e: a `thread_local!` one-entry coefficient cache keyed by the window length only,
    shared by the f32 and f64 instances).  Nothing of the kind exists in the unchanged crate, so any difference is a failure."""
    kind = "bracket"

    def __init__(self, e, e2, xs):
        self.e, self.e2, self.xs = e, e2, xs

    def impl_cases(self):
        f = lambda m, e: Case(m, gen.render(e, m), xs_ops(m, self.xs))
        return [f("f", self.e), f("s", self.e), f("f", self.e2), f("s", self.e), f("f", self.e)]

    def decide(self, impl, rel, model):
        a, b = impl[0], impl[4]
        for t, (u, v) in enumerate(zip(a, b)):
            if u != v:
                return dict(explanation="step %d: the same view on the same inputs reports %s the first time and %s after views of another scalar type / "
                                        "another window length have run in the same thread" % (t + 1, u, v), expected=u, actual=v)
        if impl[1] != impl[3]:
            return dict(explanation="the f32 instance reports different outputs on its second run", expected=impl[1][:3], actual=impl[3][:3])
        return None

    def nontrivial_key(self, impl):
        return _nontriv((gen.render(self.e, "q"), tuple(self.xs)), outputs("f", impl[0]), gen.window_of(self.e))

    def to_json(self):
        return dict(kind=self.kind, e=jexpr(self.e), e2=jexpr(self.e2), xs=jvals(self.xs))

    @staticmethod
    def from_json(d):
        return Bracket(uexpr(d["e"]), uexpr(d["e2"]), uvals(d["xs"]))


JOB_KINDS["bracket"] = Bracket


def jobs_C17(rng, tier):
    js = []
    for nm in gen.UNARY:
        for _ in range(scale_n(tier, 2, 10)):
            ps = gen.gen_params(rng, nm, 9)
            e = mk(nm, ECHO, ps)
            ps2 = [(p + rng.randint(1, 5)) if isinstance(p, int) and not isinstance(p, bool) else p for p in ps]
            pos = gen.needs_positive(e)
            js.append(Bracket(e, mk(nm, ECHO, ps2), gen.stream(rng, rng.choice(["dyadic8", "rampup", "sawtooth", "spike"]), 3 * gen.window_of(e) + 12, positive=pos)))
    for _ in range(scale_n(tier, 150, 1500)):
        e = gen.gen_tree(rng, rng.randint(1, 3), False)
        pos = gen.needs_positive(e) or "div" in gen.tree_names(e)
        fam, xs = gen.gen_stream(rng, rng.randint(6, 30), 3, positive=pos)
        t = Twin(e, xs, rng.randrange(10 ** 9))
        js.append(t)
        ops, _ = t.plan()
        js.append(Corr(e, "f", ops, "pattern"))
    for nm in gen.UNARY:
        for _ in range(scale_n(tier, 2, 12)):
            e = mk(nm, ECHO, gen.gen_params(rng, nm, 7))
            fam, xs = stream_for(rng, e, 3 * gen.window_of(e) + 6)
            t = Twin(e, xs, rng.randrange(10 ** 9))
            js.append(t)
            js.append(Corr(e, "q", Twin(e, xs, t.noise_seed, "q").plan()[0], "pattern"))
        # clones taken at the moments where a copy is most likely to differ from its original: of the fresh view, after the
        # first value, one short of a full window, on the full window, and a little later (first wrap-around of a ring)
        e = mk(nm, ECHO, gen.gen_params(rng, nm, 7))
        w = gen.window_of(e)
        for pt in (0, 1, max(1, w - 1), w, w + 2):
            fam, xs = stream_for(rng, e, 3 * w + 6)
            js.append(Twin(e, xs, rng.randrange(10 ** 9), clone_pt=pt))
    return js


# ====================================================================== C18
class Heap(Job):
    """live heap bytes owned by the view after L and after 4L values must be equal, and consistent with the model's size"""
    kind = "heap"

    def __init__(self, e, L, seed, style="random"):
        self.e, self.L, self.seed, self.style = e, L, seed, style

    def ops(self):
        rng = random.Random(self.seed)
        pos = gen.needs_positive(self.e)
        pos = pos or "div" in gen.tree_names(self.e)
        mkv = lambda: F(rng.randint(1 if pos else -512, 512), 8)
        if self.style == "quantised":
            # a few levels, exact zeros, long flat stretches and exact repeats N steps apart: a buffer that is only trimmed on
            # the "ordinary" path (no tie, non-zero base, non-flat window) grows here
            levels = [F(1), F(2), F(3)] if pos else [F(0), F(0), F(1), F(-1), F(2)]
            state = {"v": levels[0], "run": 0}
            def mkq():
                if state["run"] <= 0:
                    state["v"] = rng.choice(levels)
                    state["run"] = rng.choice([1, 1, 1, 2, 3, 8, 40])
                state["run"] -= 1
                return state["v"]
            mkv = mkq
        return ["U " + enc_f(mkv()) for _ in range(self.L)] + ["Z"] + ["U " + enc_f(mkv()) for _ in range(3 * self.L)] + ["Z"]

    def impl_rel_cases(self):
        return [Case("f", gen.render(self.e, "f"), self.ops())]

    def model_cases(self):
        return [Case("f", gen.render(self.e, "f"), self.ops())]

    def decide(self, impl, rel, model):
        z = [int(l[2:]) for l in rel[0] if l.startswith("Z")]
        mz = [int(l[2:]) for l in model[0] if l.startswith("Z")]
        if any(l.startswith("P") for l in rel[0]) or len(z) != 2:
            return dict(explanation="could not measure (panic?)", expected="2 measurements", actual=rel[0][-2:])
        self.z, self.mz = z, mz
        if z[1] > z[0]:
            return dict(explanation="heap owned by %s grew from %d to %d bytes between %d and %d values" % (gen.render(self.e, "f"), z[0], z[1], self.L, 4 * self.L),
                        expected=z[0], actual=z[1])
        if len(mz) == 2:
            nodes = len(gen.tree_names(self.e))
            if mz[0] != mz[1]:
                return dict(explanation="model state size changed after warm-up", expected=mz[0], actual=mz[1], corr_only=True)
            # how MANY bytes the implementation holds is not compared with the model: C18 only says the amount stops growing,
            # and a rewrite may legitimately store less (e.g. signs instead of values) or more (e.g. a monotonic deque)
        return None

    def nontrivial_key(self, impl):
        return (gen.render(self.e, "q"), self.L, self.style)

    def to_json(self):
        return dict(kind=self.kind, e=jexpr(self.e), L=self.L, seed=self.seed, style=self.style)

    @staticmethod
    def from_json(d):
        return Heap(uexpr(d["e"]), d["L"], d["seed"], d.get("style", "random"))


JOB_KINDS["heap"] = Heap


def jobs_C18(rng, tier):
    js = []
    Ls = [1 << 10, 1 << 12] if tier == "quick" else [1 << 12, 1 << 15, 1 << 17]
    for nm in gen.UNARY + ["pfe", "eft", "tanh"]:
        for n in ([1, 3, 8, 40] if tier == "quick" else [1, 2, 3, 5, 8, 16, 40, 100]):
            if nm in ("pfe", "eft"):
                e = (nm, ECHO, gen.gen_ma(rng), max(n, gen.TWO[nm]["minN"]))
            elif nm == "tanh":
                e = ("tanh", ECHO)
            else:
                e = mk(nm, ECHO, gen.gen_params(rng, nm, 8, n=max(n, gen.CATALOGUE[nm]["minN"])))
            if nm in gen.CATALOGUE and "n" not in gen.CATALOGUE[nm]["params"] and n > 1:
                continue
            for L in Ls:
                if L >= 4 * gen.window_of(e) + 16:
                    js.append(Heap(e, L, rng.randrange(10 ** 9)))
            if Ls[0] >= 4 * gen.window_of(e) + 16:
                js.append(Heap(e, Ls[0], rng.randrange(10 ** 9), style="quantised"))
    for _ in range(scale_n(tier, 60, 500)):
        # (trees in which no node can leave its domain: a 0/0 or ln(0) deep inside a chain is a NaN in the release build, and
        # what a view does with NaN input is outside every property — harmless rewrite H02, a monotonic deque under Min, keeps
        # NaNs for ever)
        e = gen.gen_tree(rng, rng.randint(2, 3), False)
        for _try in range(50):
            if gen.domain_safe(e):
                break
            e = gen.gen_tree(rng, rng.randint(2, 3), False)
        if gen.domain_safe(e):
            js.append(Heap(e, Ls[0], rng.randrange(10 ** 9)))
    return js


GENERATORS = dict(C01=jobs_C01, C02=jobs_C02, C03=jobs_C03, C04=jobs_C04, C05=jobs_C05, C06=jobs_C06, C07=jobs_C07, C08=jobs_C08,
                  C09=jobs_C09, C10=jobs_C10, C11=jobs_C11, C12=jobs_C12, C13=jobs_C13, C14=jobs_C14, C15=jobs_C15, C16=jobs_C16,
                  C17=jobs_C17, C18=jobs_C18)

LEVEL = {p: "proof" for p in GENERATORS}
LEVEL["C16"] = "other"


# ====================================================================== known findings

def load_known():
    if not os.path.exists(KNOWN_FILE):
        return []
    return json.load(open(KNOWN_FILE))["findings"]


def finding_matches(entry, job, failure):
    """does a sweep failure fall under a listed known finding?  Matching is narrow: judge kind, view, and the
    listed scenario family / relation."""
    m = entry.get("match")
    if not m or entry.get("status") != "known":
        return False
    if m.get("never_in_sweep"):
        return False   # the generators never produce this finding's scenario: only its stored witness is replayed
    if m.get("kind") and m["kind"] != job.kind:
        return False
    e = getattr(job, "e", None)
    if m.get("view") and (e is None or e[0] != m["view"]):
        return False
    if m.get("top_only") and e is not None and any(isinstance(a, tuple) and a != ECHO for a in e[1:]):
        return False
    if m.get("inner_view") and (e is None or len(e) < 2 or not isinstance(e[1], tuple) or e[1][0] != m["inner_view"]):
        return False
    if m.get("rel") and getattr(job, "rel", None) != m["rel"]:
        return False
    if m.get("mode") and getattr(job, "mode", getattr(job, "fmode", None)) != m["mode"]:
        return False
    fam = getattr(job, "fam", None) or (getattr(job, "params", {}) or {}).get("fam")
    if m.get("fam") and fam not in m["fam"]:
        return False
    # the finding describes a particular kind of wrong value (a small excess over a bound, finite rounding residue): a NaN,
    # an infinity or a grossly different value on the same view is a different violation and is reported
    if m.get("actual_finite") or m.get("actual_abs_max") is not None:
        try:
            a = float(failure.get("actual"))
        except (TypeError, ValueError):
            return False
        if a != a or a in (float("inf"), float("-inf")):
            return False
        if m.get("actual_abs_max") is not None and abs(a) > m["actual_abs_max"]:
            return False
    return True


# ====================================================================== driver

def add_clone_hops(js, rng):
    """In about a third of the jobs the view is cloned at an early moment (before the first value, during warm-up, or just
    after the window filled) and the run continues on the clone.  A clone must continue exactly like the original (C17), so
    every oracle and every correspondence still has to hold; a view whose behaviour depends on something a clone does not
    carry over (capacity of a buffer, layout of a ring, a cache) then fails the property it implements, with the history
    and the clone point as the counter-example."""
    n = 0
    for j in js:
        e = getattr(j, "e", None)
        if e is None or rng.random() > 0.34:
            continue
        es = j.exprs() if isinstance(j, Relation) else [e]
        if any("add" in gen.tree_names(x) for x in es):
            continue   # Add does not implement Clone
        w = max(gen.window_of(x) for x in es)
        t0 = rng.choice([0, 1, max(1, w - 1), w, rng.randint(0, 2 * w + 2)])
        if isinstance(j, SpecEq) and j.hop is None and not getattr(j, "small_scope", False):
            j.hop = min(t0, len(j.xs)); n += 1
        elif isinstance(j, Relation) and "hop" not in j.params and j.rel not in ("decomp",):
            j.params["hop"] = min([t0] + [len(s) for s in j.streams]); n += 1
        elif isinstance(j, Corr) and not any(o[0] in "KW" for o in j.ops):
            j.ops = core.hop_ops(j.ops, t0); n += 1
        elif isinstance(j, NoPanic) and not any(o[0] in "KW" for o in j.ops):
            # "any sequence of update() and last() calls" — on a clone as well (wave-6 seed C15f: a hand-written Clone that left a
            # scratch buffer empty, so the CLONE panicked once its window filled)
            j.ops = core.hop_ops(j.ops, t0); n += 1
    return n


class TypeTwin(Job):
    """the same view at f32 and at f64 on a stream that is exact in both: same readiness pattern, values within 1e-3 of the
    output's scale.  A view must not behave differently for one scalar type (a threshold tied to T::epsilon(), a lossy
    conversion, ...); rounding itself is far below this tolerance on the short well-conditioned streams used here."""
    kind = "typetwin"

    def __init__(self, e, xs, values=True):
        self.e, self.xs, self.values = e, xs, values   # values=False: readiness pattern, panics and finiteness only

    def impl_rel_cases(self):
        return [Case("f", gen.render(self.e, "f"), xs_ops("f", self.xs)), Case("s", gen.render(self.e, "s"), xs_ops("s", self.xs))]

    def decide(self, impl, rel, model):
        if rel[1][:1] == ["P assert"] and rel[0][:1] != ["P assert"] and self.e[0] in ("alma", "almac"):
            return None   # Alma's constructor rejects a kernel whose weights underflow in f32 but not in f64: nothing to compare
        a, b = outputs("f", rel[0]), outputs("f", rel[1])
        for t, (u, v) in enumerate(zip(a, b)):
            if isinstance(u, tuple) or isinstance(v, tuple):
                if isinstance(u, tuple) != isinstance(v, tuple):
                    return dict(explanation="step %d: one scalar type panics, the other does not" % (t + 1), expected=str(u), actual=str(v))
                return None
            if (u is None) != (v is None):
                return dict(explanation="step %d: readiness differs between f64 and f32" % (t + 1), expected=str(u), actual=str(v))
            if u is None:
                continue
            if not self.values:
                if v != v or abs(v) == float("inf"):
                    return dict(explanation="step %d: the f32 instance reports the non-finite value %r where the f64 instance reports %r"
                                % (t + 1, v, u), expected=u, actual=v)
                continue
            if v != v or abs(u - v) > 1e-3 * max(1.0, abs(u)):
                return dict(explanation="step %d: the f32 instance reports %r where the f64 instance reports %r on a stream that is exact in both types"
                            % (t + 1, v, u), expected=u, actual=v)
        return None

    def nontrivial_key(self, impl):
        return (gen.render(self.e, "q"), tuple(self.xs))

    def to_json(self):
        return dict(kind=self.kind, e=jexpr(self.e), xs=jvals(self.xs), values=self.values)

    @staticmethod
    def from_json(d):
        return TypeTwin(uexpr(d["e"]), uvals(d["xs"]), d.get("values", True))

    def shrink_candidates(self):
        return [TypeTwin(self.e, self.xs[:-1], self.values)] if len(self.xs) > 2 else []


JOB_KINDS["typetwin"] = TypeTwin

SPECIAL_BITS = ["8000000000000000", "0000000000000000", "0000000000000001", "8000000000000003", "0010000000000000", "000fffffffffffff",
                "3ff0000000000000", "3ff0000000000001", "3fefffffffffffff", "bff0000000000000", "4000000000000000", "3fe0000000000000",
                "4340000000000000", "4340000000000001", "3ca0000000000000", "bca0000000000000", "7fd0000000000000" if False else "5fe0000000000000",
                "1ff0000000000000", "4008000000000000", "c008000000000000"]


def augment_jobs(js, rng, pid, tier):
    """Scenario kinds that any property's views must survive, added to every property's job list (wave-4 seeds):
    both builds; varied call patterns (updates without last(), last() before any update); long runs (> 2^16 values: narrow
    or saturating counters, periodic compaction); special finite floats (signed zeros, subnormals, neighbours of 1, 2^53);
    the same view at f32 and f64; a view nested inside a view of its own type."""
    corr = [j for j in js if isinstance(j, Corr)]
    for j in corr:
        r = rng.random()
        if r < 0.4 and not j.both and j.mode == "f":
            j.both = True
        if rng.random() < 0.25 and not any(o[0] in "KW" for o in j.ops):
            ops = []
            if rng.random() < 0.5:
                ops.append("L")           # last() before any update
            for o in j.ops:
                if o[0] == "X" and rng.random() < 0.35:
                    ops.append("U" + o[1:])   # update without reading
                else:
                    ops.append(o)
            j.ops = ops + ["L"]
    # one representative expression per catalogue view (over Echo) that this property's jobs mention
    reps = {}
    for j in js:
        for e in ([getattr(j, "e", None)] + list(getattr(j, "es", None) or []) + [getattr(j, "outer", None)]):
            if e and (e[0] in gen.CATALOGUE or e[0] == "tanh") and len(e) > 1 and e[1] == ECHO and e[0] not in reps:
                reps[e[0]] = e
    names = sorted(reps)
    rng.shuffle(names)
    extra = []
    # reads after 1, 2, 3, 255, 256, 257, 512, ... updates without a read in between (a wrapping or saturating step stamp)
    gaps = [1, 1, 2, 3, 255, 256, 257, 256, 512, 768, 1024, 4096, 65536, 7, 256]
    for nm in names[: (12 if tier == "quick" else 40)]:
        e = reps[nm]
        n = gen.window_of(e)
        pos = gen.needs_positive(e)
        # long run
        L = 76000 if tier == "quick" else 150000
        period = rng.choice([7, 13, 50])
        base = [F(rng.randint(1, 64), 8) if pos else F(rng.randint(-64, 64), 8) for _ in range(period * 40)]
        xs = [base[t % len(base)] + F(t % 5, 16) for t in range(L)]
        reads, t0 = set(), 3 * n + 5
        for g in gaps:
            t0 += g
            reads.add(t0)
        ops = [("X " if (t in reads or t % 997 == 0 or t > L - 40) else "U ") + enc("f", x) for t, x in enumerate(xs)]
        extra.append(Corr(e, "f", ops, "f64", scale=16.0, n=n))
        # special finite floats (f64 only; the exact scalar has neither signed zeros nor subnormals): signed zeros, subnormals,
        # neighbours of 1, 2^53 +- 1; small integers in units of 2^-1074 (everything subnormal) and of 2^1019 (sums of a few
        # values overflow unless the code divides first).  Compared value by value against its own magnitude.
        import struct
        def bits(x):
            return "%016x" % struct.unpack(">Q", struct.pack(">d", x))[0]
        K = 3 * n + 12
        variants = [[rng.choice(SPECIAL_BITS if not pos else [b for b in SPECIAL_BITS if b[0] in "01234567" and b != "0000000000000000"]) for _ in range(K)],
                    [bits((rng.randint(1, 9) if pos else rng.randint(-9, 9)) * 5e-324 * rng.choice([1, 1, 1000, 2 ** 40])) for _ in range(K)],
                    [bits((rng.randint(1, 3) if pos else rng.choice([-3, -2, -1, 1, 2, 3])) * 2.0 ** 1019) for _ in range(K)]]
        for sp in variants:
            # informational: extreme magnitudes are outside every property's domain ("moderate magnitude", "bounded dynamic
            # range"), and an equally valid re-association may answer differently there (harmless rewrite H03: 0.707 vs 0 on the
            # window 1, 2^53, -0, 5e-324) — differences are counted in the evidence, not reported
            extra.append(Corr(e, "f", ["X " + b for b in sp], "rel", scale=1.0, both_builds=True, n=n, info=True))
        # the same view at both float types
        # (not the views whose running sums are ill-conditioned at f32 even on short streams: Welford family, CTI, Alma with a
        # small offset — K4/K5-class findings, measured under C16)
        if nm not in ("vst", "vsct", "wo", "roc", "lagrsi", "cti", "bent", "eft", "tanh", "alma", "almac"):
            xs2 = gen.stream(rng, rng.choice(["rampup", "sawtooth", "dyadic8"]), 3 * n + 12, n, positive=pos)
            extra.append(TypeTwin(e, xs2))
        # every view at both float types on zero-heavy / tie-heavy streams (exact in f32): same readiness, no panic, finite
        if nm != "tanh":
            xs4 = gen.stream(rng, rng.choice(["zeros", "ties", "ints", "sawtooth", "flat_after_volatile"]), 3 * n + 12, n, positive=pos)
            if nm == "roc":
                xs4 = [x if x != 0 else F(1, 2) for x in xs4]
            extra.append(TypeTwin(e, xs4, values=False))
        # nested in a view of its own type
        e2 = (e[0], e) + tuple(e[2:])
        if nm == "tanh":
            continue
        fam, xs3 = gen.gen_stream(rng, 4 * n + 14, n, positive=True if pos else False, families=["dyadic8", "rampup", "spike", "sawtooth", "ties"])
        extra += both_mode_corr(e2, xs3, n=n)
    js.extend(extra)
    return len(extra)


def job_views(j):
    """names of all views a job's expressions mention"""
    names = set()
    es = [getattr(j, "e", None), getattr(j, "outer", None), getattr(j, "inner", None)] + list(getattr(j, "es", None) or [])
    if isinstance(j, Relation):
        try:
            es += list(j.exprs())
        except Exception:
            pass
    for e in es:
        if e:
            names.update(gen.tree_names(e))
    return names


def search_phase(pid, seed, tier, focus, everything, known, budget_s):
    """Deeper search for a concrete failing input.  Runs when /repo's sources differ from the ones the model was last
    validated against (source_hashes.json) or when the correspondence broke without an oracle failure: fresh PRNG states,
    the thorough-tier generators of this property restricted to the views concerned (all views when a shared file changed),
    until an oracle job fails or the time budget is used up.  Only the kinds of job the ordinary tiers run — so it can report
    nothing the thorough tier could not."""
    t0 = time.time()
    stats = dict(rounds=0, jobs=0, views=sorted(focus), all_views=bool(everything), budget_s=budget_s, corr_failures=0, found=False)
    first_corr = None
    rounds = 0
    while time.time() - t0 < budget_s and rounds < 40:
        rounds += 1
        rng = random.Random(seed * 1000003 + 7919 * rounds + int(pid[1:]))
        js = GENERATORS[pid](rng, "thorough" if rounds % 2 == 0 else "quick")
        add_clone_hops(js, random.Random(seed * 15485863 + rounds))
        if rounds <= 2:
            augment_jobs(js, random.Random(seed * 32452843 + rounds), pid, "quick")
        js = [j for j in js if not getattr(j, "small_scope", False)]   # deterministic: the main pass has run them already
        if not everything:
            js = [j for j in js if job_views(j) & focus]
        elif len(js) > 1500:
            js = rng.sample(js, 1500)
        if not js:
            continue
        stats["rounds"] = rounds
        for i in range(0, len(js), 300):
            if time.time() - t0 > budget_s:
                break
            res = run_jobs(js[i:i + 300])
            stats["jobs"] += len(res)
            for j, f in res:
                if f is None or getattr(j, "info", False) or any(finding_matches(kk, j, f) for kk in known):
                    continue
                if f.get("corr_only"):
                    stats["corr_failures"] += 1
                    first_corr = first_corr or (j, f)
                    continue
                stats["found"] = True
                stats["wall_s"] = round(time.time() - t0, 1)
                return (j, f), first_corr, stats
    stats["wall_s"] = round(time.time() - t0, 1)
    return None, first_corr, stats


def tie_lost_final(tie, js):
    """the views used by this check's jobs whose translator tie is broken or that the translator no longer understands"""
    used = set()
    for j in js:
        used |= job_views(j)
    return sorted(v for v in list(tie.get("broken", {})) + list(tie.get("untranslatable", {})) if set(core.TIE_VIEWS.get(v, [])) & used)


def check_property(pid, tier, seed, do_lean=True, write_evidence=True):
    t0 = time.time()
    if pid not in GENERATORS:
        print("unknown property", pid)
        return 2
    rng = random.Random(seed * 1009 + int(pid[1:]))
    proof_failures, corr_failures, oracle_failures, known_hits = [], [], [], []
    lean = dict(obligations=0, discharged=0, theorems=[], failures=[], checker_cmd="(skipped)")
    tie = dict(skipped="--no-lean")
    if do_lean:
        lean = core.lean_obligations(pid, thorough=(tier == "thorough"))
        proof_failures = list(lean["failures"])
        tie = core.translator_tie(thorough=(tier == "thorough"))
    build_error = None
    results = []
    try:
        core.build_harness()
        core.build_driver()
    except core.BuildError as ex:
        build_error = str(ex)
    js = []
    cov_dir = None
    if tier == "thorough" and write_evidence and not os.environ.get("VERIF_DUMP_CASES"):
        # thorough tier: keep what is fed to the implementation, to measure afterwards which lines of /repo/src it executed
        import tempfile
        os.makedirs(core.WORK, exist_ok=True)
        cov_dir = tempfile.mkdtemp(prefix="sfcases_", dir=core.WORK)
        os.environ["VERIF_DUMP_CASES"] = cov_dir
    if build_error is None:
        js = GENERATORS[pid](rng, tier)
        add_clone_hops(js, random.Random(seed * 7919 + int(pid[1:])))
        augment_jobs(js, random.Random(seed * 104729 + int(pid[1:])), pid, tier)
        try:
            # batches bounded by the number of operation lines they expand to (a thorough C18 job is half a million lines)
            batch, weight = [], 0
            for j in js:
                o = getattr(j, "ops", None)
                o = None if callable(o) else o
                w = 4 * getattr(j, "L", 0) if j.kind == "heap" else len(o or getattr(j, "xs", None) or getattr(j, "bits", None) or []) \
                    + sum(len(x) for x in (getattr(j, "streams", None) or []))
                if batch and (weight + w > 6_000_000 or len(batch) >= 4000):
                    results += run_jobs(batch)
                    batch, weight = [], 0
                batch.append(j); weight += w
            if batch:
                results += run_jobs(batch)
        except core.BuildError as ex:
            build_error = str(ex)
    impl_cov = None
    if cov_dir is not None:
        os.environ.pop("VERIF_DUMP_CASES", None)
        try:
            import importlib.util, shutil
            sp = importlib.util.spec_from_file_location("sfcoverage", os.path.join(core.VERIF, "tools", "coverage.py"))
            cm = importlib.util.module_from_spec(sp); sp.loader.exec_module(cm)
            if cm.available() and build_error is None:
                rep = cm.measure(cov_dir)
                impl_cov = dict(case_files=rep["case_files"], src_files=rep["files"], lines=rep["lines"], lines_executed=rep["lines_covered"],
                                line_coverage=rep["line_coverage"],
                                files_fully_executed=sorted(f for f, p in rep["per_file"].items() if p["lines"] and not p["uncovered"]),
                                note="lines of /repo/src (non-test code) executed by the inputs of THIS check, measured with an "
                                     "instrumented build of the harness (nightly llvm-cov); a measurement, not a gate")
        except Exception as ex:   # the measurement must never break a check
            impl_cov = dict(error=str(ex)[:300])
        finally:
            import shutil
            shutil.rmtree(cov_dir, ignore_errors=True)
    known = [k for k in load_known() if k.get("property") == pid]
    # replay stored witnesses of known findings
    known_lines = []
    if build_error is None:
        for k in known:
            if k.get("status") != "known" or not k.get("witness"):
                continue
            j = job_from_json(k["witness"])
            f = run_jobs([j])[0][1]
            if f is not None:
                known_lines.append("KNOWN-FINDING: property=%s %s" % (pid, k["what"]))
            else:
                log("note: witness of known finding %s no longer fails" % k.get("id"))
    extra_failures = []
    if pid == "C17" and build_error is None:
        bad, n_last = source_audit()
        if bad:
            extra_failures.append("source audit: " + "; ".join(bad))
    nontrivial = set()
    bit = lines = 0
    info_differences = 0
    kinds = collections.Counter()
    fams = collections.Counter()
    views = collections.Counter()
    windows, depth, lengths, modes, panics, outcomes = (collections.Counter() for _ in range(6))
    clones = 0
    for j, f in results:
        kinds[j.kind + (":" + j.rel if isinstance(j, Relation) else "")] += 1
        e = getattr(j, "e", None) or getattr(j, "outer", None)
        if e:
            views[e[0]] += 1
            w = gen.window_of(e)
            windows["1" if w == 1 else "2" if w == 2 else "3" if w == 3 else "4-8" if w <= 8 else "9-33" if w <= 33 else "34-128" if w <= 128 else ">128"] += 1
            depth[str(min(len(gen.tree_names(e)), 5)) + ("+" if len(gen.tree_names(e)) >= 5 else "")] += 1
        fam = getattr(j, "fam", None) or (getattr(j, "params", {}) or {}).get("fam")
        if fam:
            fams[fam] += 1
        L = len(getattr(j, "xs", None) or (getattr(j, "streams", None) or [[]])[0] or (getattr(j, "ops", None) if not callable(getattr(j, "ops", None)) else None) or [])
        lengths["<=8" if L <= 8 else "9-40" if L <= 40 else "41-400" if L <= 400 else "401-5000" if L <= 5000 else ">5000"] += 1
        modes[getattr(j, "mode", getattr(j, "fmode", "-"))] += 1
        if getattr(j, "hop", None) is not None or (getattr(j, "params", {}) or {}).get("hop") is not None:
            clones += 1
        for out_lines in (getattr(j, "_impl", None) or []):
            for l in out_lines:
                if l[:1] == "P":
                    panics[l[2:]] += 1
                elif l[:1] == "N":
                    outcomes["none"] += 1
                elif l[:1] == "S":
                    outcomes["some"] += 1
        k = None
        try:
            k = j.nontrivial_key(j._impl)
        except Exception:
            pass
        if k is not None:
            nontrivial.add(hash(k))
        if isinstance(j, Corr):
            bit += getattr(j, "bit", 0); lines += getattr(j, "lines", 0)
        if f is None:
            continue
        if getattr(j, "info", False):
            info_differences += 1
            continue
        if os.environ.get("VERIF_DEBUG"):
            log("FAIL", j.kind, json.dumps(j.to_json())[:300], "::", f["explanation"][:300], "exp", str(f.get("expected"))[:80], "act", str(f.get("actual"))[:80])
        hit = next((kk for kk in known if finding_matches(kk, j, f)), None)
        if hit is not None:
            known_hits.append((hit, j, f))
        elif f.get("corr_only"):
            corr_failures.append((j, f))
        else:
            oracle_failures.append((j, f))
    # sources that differ from the validated ones, or a broken correspondence without a counter-example: search deeper
    search = None
    if build_error is None and not oracle_failures and not os.environ.get("VERIF_NO_SEARCH"):
        focus, everything, changed = core.source_focus()
        # views whose translator tie no longer checks (the Rust text is no longer proved equal to the model): search them too
        tie_names = {n for v in list(tie.get("broken", {})) + list(tie.get("untranslatable", {})) for n in core.TIE_VIEWS.get(v, [])}
        used = set()
        for j in js:
            used |= job_views(j)
        tie_lost = sorted(v for v in list(tie.get("broken", {})) + list(tie.get("untranslatable", {})) if set(core.TIE_VIEWS.get(v, [])) & used)
        focus |= (tie_names & used)
        for j, f in corr_failures:
            focus |= {n for n in job_views(j) if n in gen.CATALOGUE or n in gen.TWO or n in gen.BINOPS or n == "tanh"}
        if focus or everything:
            budget = float(os.environ.get("VERIF_SEARCH_S", 45 if tier == "quick" else 600))
            log("%s: sources differ from the validated ones (%s)%s: searching the views %s for a failing input (<= %.0fs)"
                % (pid, ", ".join(changed) or "-", " / correspondence broke" if corr_failures else "",
                   "ALL" if everything else sorted(focus), budget))
            hit, c1, search = search_phase(pid, seed, tier, focus, everything, known, budget)
            search["changed_files"] = changed
            if hit is not None:
                oracle_failures.append(hit)
            if c1 is not None and not corr_failures:
                corr_failures.append(c1)
    for line in sorted(set(known_lines)):
        print(line)
    for v in tie_lost_final(tie, js):
        log("NOTE: %s: translator tie lost for %s (%s)" % (pid, v, (tie.get("broken", {}).get(v) or tie.get("untranslatable", {}).get(v) or "")[:160]))
    violation = None
    if oracle_failures:
        j, f = oracle_failures[0]
        try:
            j2, f2 = shrink(j)
            if f2 is not None:
                j, f = j2, f2
        except Exception:
            pass
        path = core.save_replay(pid, dict(property=pid, kind="counterexample", job=j.to_json(), explanation=f["explanation"],
                                          expected=f.get("expected"), actual=f.get("actual"), seed=seed, tier=tier,
                                          other_failures=len(oracle_failures) - 1))
        violation = "VIOLATION property=%s replay=%s" % (pid, path)
    elif corr_failures or proof_failures or build_error or extra_failures or (tier == "thorough" and tie_lost_final(tie, js)):
        rec = dict(property=pid, kind="unproved", seed=seed, tier=tier)
        if build_error:
            rec["what"] = "the harness no longer builds against /repo (a public signature changed?): correspondence for %s cannot be established" % pid
            rec["detail"] = build_error[-3000:]
        elif corr_failures:
            j, f = corr_failures[0]
            try:
                j2, f2 = shrink(j)
                if f2 is not None:
                    j, f = j2, f2
            except Exception:
                pass
            rec["what"] = "correspondence between the Lean model and the implementation no longer checks; theorems of SF.Props.%s no longer apply to this code" % pid
            rec["job"] = j.to_json()
            rec["explanation"], rec["expected"], rec["actual"] = f["explanation"], f.get("expected"), f.get("actual")
            rec["theorems"] = [t["name"] for t in lean["theorems"]]
        elif proof_failures:
            rec["what"] = "proof obligations of SF.Props.%s do not check" % pid
            rec["detail"] = proof_failures
        elif extra_failures:
            rec["what"] = extra_failures[0]
        else:
            lost = tie_lost_final(tie, js)
            rec["what"] = ("translator tie: the Rust text of %s is no longer proved equal to the Lean model (theorems %s no longer check); "
                           "the sampled correspondence held and the search found no failing input, so the theorems of SF.Props.%s "
                           "apply to this code only as far as the sampled correspondence shows (thorough tier reports this; the quick tier records it)"
                           % (", ".join(lost), ", ".join("SF.GenEq.%s.tie" % v for v in lost), pid))
            rec["detail"] = {v: (tie.get("broken", {}).get(v) or tie.get("untranslatable", {}).get(v)) for v in lost}
        path = core.save_replay(pid, rec)
        violation = "VIOLATION property=%s replay=%s no-failing-input-found" % (pid, path)
    wall = time.time() - t0
    samples = []
    for j, f in results[:: max(1, len(results) // 5)][:5]:
        d = j.to_json()
        for key in ("ops", "xs"):
            if key in d and len(d[key]) > 12:
                d[key] = d[key][:12] + ["... (%d)" % len(d[key])]
        if "streams" in d:
            d["streams"] = [s[:12] for s in d["streams"]]
        samples.append(d)
    cov = dict(
        obligations=lean["obligations"], discharged=lean["discharged"], checker_cmd=lean["checker_cmd"], trusted_base=TRUSTED,
        theorems=lean["theorems"],
        evaluations=len(results), distinct_nontrivial=len(nontrivial),
        rule="jobs drawn from one PRNG seeded by VERIF_SEED; a job is non-trivial when its stream outlived the window and the implementation's output was not constant; distinct = distinct (view, parameters, inputs)",
        traces_validated_against_impl=sum(1 for j, f in results if isinstance(j, (Corr, SpecEq)) and f is None),
        correspondence_lines=lines, bit_identical_lines=bit,
        f64_value_differences_that_vanish_in_exact_arithmetic=sum(1 for j, f in results if getattr(j, "rounding_only", False)),
        job_kinds=dict(kinds), views=dict(views), samples=samples,
        input_distribution=dict(window_lengths=dict(windows), tree_nodes=dict(depth), stream_lengths=dict(lengths), scalar_modes=dict(modes),
                                labelled_stream_families=dict(fams), jobs_continued_on_a_clone=clones,
                                implementation_outputs=dict(outcomes), implementation_panics_by_kind=dict(panics),
                                note="measured on this run: what the implementation was fed and what it answered (relassert build)"),
        known_findings_replayed=len(known_lines), failures_matching_known_findings=len(known_hits),
        implementation_line_coverage=impl_cov,
        differences_on_out_of_domain_inputs_recorded_not_reported=info_differences,
        exhaustive_small_scope=dict(cases=sum(1 for j, f in results if getattr(j, "small_scope", False)), exhaustive=True,
                                    rule="every stream of length 6 (8 in the thorough tier; 5 / 6 for the transcendental recursive filters of C11) over a three-letter alphabet {0, 1, -2} ({1/2, 1, 3} for "
                                         "positive-domain views), window lengths 1, 2, 3, for each view that has a batch definition in this "
                                         "property: implementation in exact arithmetic vs the Lean spec"),
        translator_tie=dict(
            what="tools/rs2lean.py regenerated lean/SF/Gen/<View>.lean from the Rust text of the repository's working tree on this run; "
                 "SF.GenEq.<View>.tie (kernel-checked) states that the generated view and the model's view give the same answers and "
                 "the same panics on every input, for every child view",
            views_proved_equal_to_the_model=sorted(tie.get("proved", [])), broken=tie.get("broken", {}), untranslatable=tie.get("untranslatable", {}),
            end_to_end_theorems_for_this_property=dict(
                theorems=["SF.GenEq." + n for n in (tie.get("transfer") or {}).get(pid, [])],
                meaning="(C14: the generated last() of a combinator = the operation applied to its children's current outputs, at any scalar type, hence bit-exactly at Float.  Otherwise:) "
                        "Realises (the view generated from the Rust text, over Echo) (the batch definition the property names): fed any history, "
                        "the translated Rust text does not panic and reports the definition's value -- the model's characterisation theorem "
                        "carried over along SF.GenEq.<View>.sim (real arithmetic); axioms audited",
                skipped=tie.get("transfer_skipped") or tie.get("transfer_error")),
            generated_files_that_changed_on_this_run=tie.get("changed", []), skipped=tie.get("skipped"), axioms_of_the_tie_theorems=tie.get("axioms"), leanchecker=tie.get("leanchecker", "thorough tier only"),
            views_of_this_check_whose_tie_is_lost=tie_lost_final(tie, js), wall_s=tie.get("wall_s"), checker_cmd=tie.get("checker_cmd"),
            views_not_covered_by_the_translator="HLNormalizer, CenterOfGravity, CorrelationTrendIndicator, NoiseEliminationTechnology, "
                                                "CyberCycle, LaguerreRSI, TrendFlex, ReFlex, PolarizedFractalEfficiency, "
                                                "EhlersFisherTransform (loops / iterator chains / index-heavy ladders): tied by the differential correspondence only",
            policy="quick tier: a lost tie widens the search for a failing input and is recorded here; it is reported as a violation "
                   "(no-failing-input-found) only in the thorough tier, or when the sampled correspondence breaks as well"),
        search_for_failing_input=search or "not needed: /repo/src equals the sources recorded in source_hashes.json and the correspondence held",
        explanation="proof obligations: theorems of SF/Props/%s.lean audited with #print axioms; tie: Rust harness on /repo's working tree vs Lean model (f64 and exact Q) and vs batch specs; relations evaluated on the implementation in exact arithmetic" % pid,
    )
    if write_evidence:
        core.write_evidence(pid, tier, seed, LEVEL[pid], cov,
                            ["model/implementation tie is differential (sampled); IEEE rounding and the allocator are outside the theorems"],
                            wall, 1 if violation else 0)
    log("%s: %d jobs, %d non-trivial, %d/%d obligations, %d oracle failures, %d corr failures, %d known-matching, %.1fs"
        % (pid, len(results), len(nontrivial), lean["discharged"], lean["obligations"], len(oracle_failures), len(corr_failures), len(known_hits), wall))
    if violation:
        print(violation)
        return 1
    return 0


def replay(path):
    rec = json.load(open(path))
    pid = rec.get("property", "?")
    try:
        core.build_harness()
        core.build_driver()
    except core.BuildError as ex:
        print("build failed:", str(ex)[-2000:])
        print("VIOLATION property=%s replay=%s no-failing-input-found" % (pid, path))
        return 1
    if "job" not in rec:
        print(rec.get("what"))
        print(json.dumps(rec.get("detail"), indent=1)[:3000])
        print("VIOLATION property=%s replay=%s no-failing-input-found" % (pid, path))
        return 1
    j = job_from_json(rec["job"])
    f = run_jobs([j])[0][1]
    if f is None:
        print("replay passes on the current tree")
        return 0
    print(f["explanation"])
    print(" expected:", f.get("expected"))
    print(" actual:  ", f.get("actual"))
    print("VIOLATION property=%s replay=%s%s" % (pid, path, " no-failing-input-found" if f.get("corr_only") else ""))
    return 1
