"""Infrastructure of the checks: building, running both drivers, encodings, comparison, evidence."""
import json, os, struct, subprocess, sys, time, hashlib, random, re
from fractions import Fraction
sys.set_int_max_str_digits(0)

VERIF = os.path.dirname(os.path.dirname(os.path.abspath(__file__)))
# development only: a scratch copy of the Lean project / of the harness (pointing at a scratch worktree of /repo)
LEAN = os.environ.get("VERIF_LEAN_DIR") or os.path.join(VERIF, "lean")
HARNESS = os.environ.get("VERIF_HARNESS_DIR") or os.path.join(VERIF, "harness")
# development only (tools/seed_eval.py --iso): the tree the scratch harness is built against, instead of /repo
REPO = os.environ.get("VERIF_REPO_DIR") or "/repo"
WORK = os.path.join(VERIF, "work")
REPLAYS = os.path.join(VERIF, "replays")
EVIDENCE = os.path.join(VERIF, "evidence")
SFDRV = os.path.join(LEAN, ".lake", "build", "bin", "sfdrv")
ENV = dict(os.environ, CARGO_NET_OFFLINE="true")

ACCEPTED_AXIOMS = {"propext", "Classical.choice", "Quot.sound"}


def log(*a):
    print(*a, file=sys.stderr, flush=True)


# ------------------------------------------------------------------ builds

class BuildError(Exception):
    pass


def harness_bin(profile):
    return os.path.join(HARNESS, "target", profile, "sf_harness")


def build_harness(profiles=("release", "relassert")):
    """(Re)build the Rust harness against /repo's current working tree."""
    lock = os.path.join(HARNESS, "Cargo.lock")
    if not os.path.exists(lock):
        import shutil
        shutil.copy(os.path.join(REPO, "Cargo.lock"), lock)
    for p in profiles:
        cmd = ["cargo", "build", "--offline", "--quiet"] + (["--release"] if p == "release" else ["--profile", p])
        r = subprocess.run(cmd, cwd=HARNESS, env=ENV, capture_output=True, text=True)
        if r.returncode != 0:
            raise BuildError("cargo build (%s) failed:\n%s" % (p, r.stderr[-4000:]))


def build_driver():
    r = subprocess.run(["lake", "build", "sfdrv"], cwd=LEAN, capture_output=True, text=True)
    if r.returncode != 0:
        raise BuildError("lake build sfdrv failed:\n" + (r.stdout + r.stderr)[-4000:])


def strip_comments(src):
    # remove /- ... -/ (nested) and -- comments
    out, i, depth = [], 0, 0
    while i < len(src):
        if src.startswith("/-", i):
            depth += 1; i += 2; continue
        if depth and src.startswith("-/", i):
            depth -= 1; i += 2; continue
        if depth:
            i += 1; continue
        if src.startswith("--", i):
            j = src.find("\n", i)
            i = len(src) if j < 0 else j
            continue
        out.append(src[i]); i += 1
    return "".join(out)


# ------------------------------------------------------------------ which sources differ from the validated ones

SRC_VIEWS = {
    "pure_functions/add.rs": ["add"], "pure_functions/subtract.rs": ["sub"], "pure_functions/multiply.rs": ["mul"],
    "pure_functions/divide.rs": ["div"], "pure_functions/constant.rs": ["const"], "pure_functions/echo.rs": ["echo"],
    "pure_functions/gte.rs": ["gte"], "pure_functions/lte.rs": ["lte"], "pure_functions/tanh.rs": ["tanh"],
    "rolling/drawdown.rs": ["drawdown", "drawdown_d"], "rolling/ln_return.rs": ["lnret", "lnret_d"],
    "rolling/welford_rolling.rs": ["wroll", "wroll_d"],
    "sliding_windows/alma.rs": ["alma", "almac"], "sliding_windows/binary_entropy.rs": ["bent"],
    "sliding_windows/center_of_gravity.rs": ["cog"], "sliding_windows/correlation_trend_indicator.rs": ["cti"],
    "sliding_windows/cumulative.rs": ["cum"], "sliding_windows/cyber_cycle.rs": ["cc"],
    "sliding_windows/ehlers_fisher_transform.rs": ["eft"], "sliding_windows/ema.rs": ["ema", "emaa"],
    "sliding_windows/hl_normalizer.rs": ["hln"], "sliding_windows/laguerre_filter.rs": ["lagf"],
    "sliding_windows/laguerre_rsi.rs": ["lagrsi"], "sliding_windows/max.rs": ["max"], "sliding_windows/min.rs": ["min"],
    "sliding_windows/my_rsi.rs": ["myrsi"], "sliding_windows/noise_elimination_technology.rs": ["net"],
    "sliding_windows/polarized_fractal_efficiency.rs": ["pfe"], "sliding_windows/re_flex.rs": ["rflex"],
    "sliding_windows/roc.rs": ["roc"], "sliding_windows/roofing_filter.rs": ["roof"], "sliding_windows/rsi.rs": ["rsi"],
    "sliding_windows/sma.rs": ["sma"], "sliding_windows/super_smoother.rs": ["ss"], "sliding_windows/trend_flex.rs": ["tflex"],
    "sliding_windows/variance_stabilizing_transformation.rs": ["vst"], "sliding_windows/vsct.rs": ["vsct"],
    "sliding_windows/welford_online.rs": ["wo", "vst", "vsct"],
}
# files that no view's behaviour depends on (plotting helpers, test data): a change there is not a reason to search
SRC_IGNORED = {"plot.rs", "test_data.rs"}


def source_hashes(root=None):
    root = root or os.path.join(REPO, "src")
    out = {}
    for d, _, files in os.walk(root):
        for f in files:
            if f.endswith(".rs"):
                p = os.path.join(d, f)
                out[os.path.relpath(p, root)] = hashlib.sha256(open(p, "rb").read()).hexdigest()
    return out


def source_focus():
    """(views, everything, changed_files): the views whose source file differs from the one recorded in source_hashes.json
    (the state the model was last validated against); `everything` when a shared file (lib.rs, a mod.rs, a new file)
    differs.  On the unchanged tree: (set(), False, [])."""
    try:
        rec = json.load(open(os.path.join(VERIF, "source_hashes.json")))["files"]
    except Exception:
        return set(), False, []
    cur = source_hashes()
    changed = sorted(f for f in set(rec) | set(cur) if rec.get(f) != cur.get(f) and f not in SRC_IGNORED)
    views, everything = set(), False
    for f in changed:
        if f in SRC_VIEWS:
            views.update(SRC_VIEWS[f])
        else:
            everything = True
    return views, everything, changed


FORBIDDEN = re.compile(r"\bsorry\b|\badmit\b|^\s*axiom\s|native_decide|bv_decide|implemented_by|\bunsafe\s|maxHeartbeats\s+0\b", re.M)


def lean_obligations(pid, thorough=False):
    """Build SF.Props.<pid>, audit axioms of every theorem listed in SF/Audit/<pid>.lean.
    Returns dict(obligations, discharged, theorems, failures[list of str], checker_cmd)."""
    res = dict(obligations=0, discharged=0, theorems=[], failures=[],
               checker_cmd="cd lean && lake build SF.Props.%s && lake env lean SF/Audit/%s.lean  (#print axioms)" % (pid, pid))
    audit = os.path.join(LEAN, "SF", "Audit", pid + ".lean")
    props = os.path.join(LEAN, "SF", "Props", pid + ".lean")
    if not os.path.exists(audit) or not os.path.exists(props):
        res["failures"].append("missing Lean files for " + pid)
        return res
    names = re.findall(r"^#print axioms\s+(\S+)", open(audit).read(), re.M)
    res["obligations"] = len(names)
    r = subprocess.run(["lake", "build", "SF.Props." + pid], cwd=LEAN, capture_output=True, text=True)
    if r.returncode != 0:
        m = re.findall(r"error: (.*)", r.stdout + r.stderr)
        res["failures"].append("lake build SF.Props.%s failed: %s" % (pid, "; ".join(m[:5])))
        return res
    r = subprocess.run(["lake", "env", "lean", os.path.join("SF", "Audit", pid + ".lean")], cwd=LEAN, capture_output=True, text=True)
    out = r.stdout + r.stderr
    if r.returncode != 0:
        res["failures"].append("audit file failed: " + out[-1500:])
        return res
    ok = {}
    for m in re.finditer(r"'(\S+)' depends on axioms: \[([^\]]*)\]", out, re.S):
        ax = {a.strip() for a in m.group(2).replace("\n", " ").split(",") if a.strip()}
        ok[m.group(1)] = ax
    for m in re.finditer(r"'(\S+)' does not depend on any axioms", out):
        ok[m.group(1)] = set()
    for n in names:
        full = [k for k in ok if k == n or k.endswith("." + n)]
        if not full:
            res["failures"].append("no axiom report for " + n)
            continue
        ax = ok[full[0]]
        if ax - ACCEPTED_AXIOMS:
            res["failures"].append("%s depends on unaccepted axioms %s" % (n, sorted(ax - ACCEPTED_AXIOMS)))
            continue
        res["discharged"] += 1
        res["theorems"].append({"name": n, "axioms": sorted(ax)})
    # forbidden constructs in every imported SF source
    for root, _, files in os.walk(os.path.join(LEAN, "SF")):
        for f in files:
            if f.endswith(".lean"):
                src = strip_comments(open(os.path.join(root, f)).read())
                m = FORBIDDEN.search(src)
                if m:
                    res["failures"].append("forbidden construct %r in %s" % (m.group(0).strip(), f))
    if thorough and not res["failures"]:
        r = subprocess.run(["lake", "env", "leanchecker", "SF.Props." + pid], cwd=LEAN, capture_output=True, text=True)
        if r.returncode != 0:
            res["failures"].append("leanchecker rejected SF.Props.%s: %s" % (pid, (r.stdout + r.stderr)[-800:]))
        res["checker_cmd"] += " && lake env leanchecker SF.Props.%s" % pid
    return res



# ------------------------------------------------------------------ translator tie (tools/rs2lean.py + SF/GenEq)
# generated view -> names of the same view in the job generators
TIE_VIEWS = {"Sma": ["sma"], "Ema": ["ema", "emaa"], "Cumulative": ["cum"], "Roc": ["roc"], "GTE": ["gte"], "LTE": ["lte"],
             "LnReturn": ["lnret", "lnret_d"], "Drawdown": ["drawdown", "drawdown_d"], "WelfordRolling": ["wroll", "wroll_d"],
             "Echo": ["echo"], "Constant": ["const"], "Tanh": ["tanh"], "Add": ["add"], "Subtract": ["sub"], "Multiply": ["mul"],
             "Divide": ["div"], "Min": ["min"], "Max": ["max"], "SuperSmoother": ["ss"], "WelfordOnline": ["wo"], "Vst": ["vst"],
             "Vsct": ["vsct"], "Rsi": ["rsi"], "MyRSI": ["myrsi"], "BinaryEntropy": ["bent"], "RoofingFilter": ["roof"],
             "Alma": ["alma", "almac"], "LaguerreFilter": ["lagf"]}
# SF/GenEq/Transfer.lean: (theorem, generated view) per property -- `Realises (generated view over Echo) (batch definition)`
TRANSFER = {
    "C02": [("sma_rust", "Sma"), ("cumulative_rust", "Cumulative"), ("min_rust", "Min"), ("max_rust", "Max"), ("roc_rust", "Roc"),
            ("entropy_rust", "BinaryEntropy"), ("welford_rust", "WelfordOnline"), ("vst_rust", "Vst"), ("vsct_rust", "Vsct")],
    "C04": [("ema_rust", "Ema")],
    "C05": [("rsi_rust", "Rsi"), ("myrsi_rust", "MyRSI")],
    "C11": [("superSmoother_rust", "SuperSmoother"), ("roofing_rust", "RoofingFilter")],
    "C13": [("welfordRolling_rust", "WelfordRolling")],
    "C14": [("add_rust", "Add"), ("sub_rust", "Subtract"), ("mul_rust", "Multiply"), ("div_rust", "Divide"), ("tanh_rust", "Tanh")],
}
# `Realises` says "fed ANY history the view does not panic, and then reports ...": its first half is C15 for the translated text
TRANSFER["C15"] = [t for pid in ("C02", "C04", "C05", "C11", "C13") for t in TRANSFER[pid]]
# a generated view that embeds another generated view (its tie file imports the other's generated file)
TIE_DEPENDS = {"Vst": ["WelfordOnline"], "Vsct": ["WelfordOnline"], "RoofingFilter": ["SuperSmoother"]}


def translator_tie(thorough=False):
    """Regenerate lean/SF/Gen/*.lean from the Rust text of the repository's working tree (tools/rs2lean.py) and re-check the
    theorems `SF.GenEq.<View>.tie` (generated view = model view on every input, for every child view).
    Returns dict(proved=[...], broken={view: why}, untranslatable={view: why}, wall_s, checker_cmd)."""
    t0 = time.time()
    res = dict(proved=[], broken={}, untranslatable={}, changed=[],
               checker_cmd="python3 tools/rs2lean.py && cd lean && lake build SF.GenEq.<View> ... (one module per view)")
    if os.environ.get("VERIF_REPO_DIR") and os.path.realpath(os.environ["VERIF_REPO_DIR"]) != "/repo":
        # an isolated evaluation against a scratch copy of the repository must not rewrite the generated files of /verif
        res["skipped"] = "VERIF_REPO_DIR points at a scratch copy; the translator tie is only run against /repo itself"
        return res
    r = subprocess.run([sys.executable, os.path.join(VERIF, "tools", "rs2lean.py")], capture_output=True, text=True)
    try:
        rep = json.loads(r.stdout)
    except Exception:
        res["broken"] = {v: "translator crashed: " + (r.stderr or r.stdout)[-300:] for v in TIE_VIEWS}
        res["wall_s"] = round(time.time() - t0, 1)
        return res
    todo = []
    for v in TIE_VIEWS:
        st = rep.get(v, {})
        if st.get("status") != "generated":
            res["untranslatable"][v] = st.get("reason", "not generated")
        else:
            todo.append(v)
            if st.get("changed"):
                res["changed"].append(v)
    for v, deps in TIE_DEPENDS.items():
        for d in deps:
            if d in res["untranslatable"] and v in todo:
                todo.remove(v)
                res["untranslatable"][v] = "embeds %s, which is untranslatable" % d
    def build(vs, limit):
        """lake build of the tie modules of `vs`; returns (returncode or None on timeout, output)"""
        import signal
        p = subprocess.Popen(["lake", "build"] + ["SF.GenEq." + v for v in vs], cwd=LEAN, stdout=subprocess.PIPE, stderr=subprocess.STDOUT,
                             text=True, start_new_session=True)
        try:
            out, _ = p.communicate(timeout=limit)
            return p.returncode, out
        except subprocess.TimeoutExpired:
            try:
                os.killpg(p.pid, signal.SIGKILL)
            except Exception:
                pass
            p.communicate()
            return None, ""
    # the views whose generated text changed (or that embed one that did) are re-proved under a time limit: a proof script that no
    # longer fits can run for minutes before it gives up, and a check must not hang on it
    dirty = [v for v in todo if v in res["changed"] or any(d in res["changed"] for d in TIE_DEPENDS.get(v, []))]
    limit = float(os.environ.get("VERIF_TIE_S", 300 if thorough else 60))
    def committed_text(v):
        """is the generated file the one committed in /verif (the text the proofs were written against)?"""
        try:
            r = subprocess.run(["git", "show", "HEAD:lean/SF/Gen/%s.lean" % v], cwd=VERIF, capture_output=True, text=True)
            strip = lambda t: re.sub(r"\(sha256 \w+\)", "", t)
            return r.returncode == 0 and strip(r.stdout) == strip(open(os.path.join(LEAN, "SF", "Gen", v + ".lean")).read())
        except Exception:
            return False
    known_good = [v for v in dirty if all(committed_text(x) for x in [v] + TIE_DEPENDS.get(v, []))]   # e.g. right after a run on a modified tree
    dirty = [v for v in dirty if v not in known_good]
    # each changed view on its own (so that one view's failure or time-out says nothing about another), but with a budget for
    # all of them together: a change to a shared helper can alter the generated text of many views at once
    total = float(os.environ.get("VERIF_TIE_TOTAL_S", 1800 if thorough else 120))
    groups = [([v for v in todo if v not in dirty], 1200.0)] + [([v], limit) for v in dirty]
    spent = 0.0
    for gi, (vs, lim) in enumerate(groups):
        if not vs:
            continue
        if gi > 0 and spent >= total:
            for v in vs:
                res["broken"][v] = "SF.GenEq.%s.tie not re-checked: the %.0f s budget for re-proving changed views was used up" % (v, total)
            continue
        tb = time.time()
        rc, out = build(vs, lim if gi == 0 else min(lim, max(5.0, total - spent)))
        if gi > 0:
            spent += time.time() - tb
        if rc == 0:
            res["proved"] += vs
            continue
        if rc is None:
            for v in vs:
                res["broken"][v] = "SF.GenEq.%s.tie did not re-check within %.0f s after the generated text changed" % (v, lim)
            continue
        failed = {}
        for m in re.finditer(r"error: SF/(Gen|GenEq)/(\w+)\.lean:(\d+):\d+: ([^\n]*)", out):
            failed.setdefault(m.group(2), "%s/%s.lean:%s: %s" % (m.group(1), m.group(2), m.group(3), m.group(4)[:200]))
        for m in re.finditer(r"^- SF\.(?:Gen|GenEq)\.(\w+)\s*$", out, re.M):
            failed.setdefault(m.group(1), "module failed to build")
        for v in vs:
            bad = [failed[x] for x in [v] + TIE_DEPENDS.get(v, []) if x in failed]
            if bad:
                res["broken"][v] = bad[0]
            elif failed:
                res["proved"].append(v)
            else:
                res["broken"][v] = "lake build failed: " + out[-300:]
    # axioms of the tie theorems that re-checked (same audit as for the property theorems)
    if res["proved"]:
        os.makedirs(WORK, exist_ok=True)
        af = os.path.join(WORK, "TieAudit.lean")
        open(af, "w").write("".join("import SF.GenEq.%s\n" % v for v in sorted(res["proved"])) +
                            "".join("#print axioms SF.GenEq.%s.tie\n" % v for v in sorted(res["proved"])))
        r = subprocess.run(["lake", "env", "lean", af], cwd=LEAN, capture_output=True, text=True)
        out = r.stdout + r.stderr
        ax = {}
        for m in re.finditer(r"'(\S+)' depends on axioms: \[([^\]]*)\]", out, re.S):
            ax[m.group(1)] = {a.strip() for a in m.group(2).replace("\n", " ").split(",") if a.strip()}
        for m in re.finditer(r"'(\S+)' does not depend on any axioms", out):
            ax[m.group(1)] = set()
        for v in list(res["proved"]):
            a = ax.get("SF.GenEq.%s.tie" % v)
            if a is None or a - ACCEPTED_AXIOMS:
                res["proved"].remove(v)
                res["broken"][v] = "axiom audit of SF.GenEq.%s.tie failed: %s" % (v, "no report" if a is None else sorted(a - ACCEPTED_AXIOMS))
        res["axioms"] = sorted(set().union(*[ax.get("SF.GenEq.%s.tie" % v, set()) for v in res["proved"]])) if res["proved"] else []
    # end-to-end corollaries (SF/GenEq/Transfer.lean): property theorems transferred to the generated definitions
    need = set(v for vs in TRANSFER.values() for _, v in vs)
    if need <= set(res["proved"]):
        r = subprocess.run(["lake", "build", "SF.GenEq.Transfer"], cwd=LEAN, capture_output=True, text=True)
        names = [n for vs in TRANSFER.values() for n, _ in vs]
        if r.returncode == 0:
            af = os.path.join(WORK, "TransferAudit.lean")
            open(af, "w").write("import SF.GenEq.Transfer\n" + "".join("#print axioms SF.GenEq.%s\n" % n for n in names))
            r = subprocess.run(["lake", "env", "lean", af], cwd=LEAN, capture_output=True, text=True)
            out = r.stdout + r.stderr
            okn = []
            for m in re.finditer(r"'SF\.GenEq\.(\w+)' depends on axioms: \[([^\]]*)\]", out, re.S):
                ax = {a.strip() for a in m.group(2).replace("\n", " ").split(",") if a.strip()}
                if not (ax - ACCEPTED_AXIOMS):
                    okn.append(m.group(1))
            for m in re.finditer(r"'SF\.GenEq\.(\w+)' does not depend on any axioms", out):
                okn.append(m.group(1))
            res["transfer"] = {pid: [n for n, _ in vs if n in okn] for pid, vs in TRANSFER.items()}
        else:
            res["transfer_error"] = (r.stdout + r.stderr)[-300:]
    else:
        res["transfer_skipped"] = "tie lost for " + ", ".join(sorted(need - set(res["proved"])))
    if thorough and res["proved"]:
        # thorough tier: Lean's independent re-checker on the compiled tie modules (and the transfer module when it was built)
        mods = ["SF.GenEq." + v for v in sorted(res["proved"])] + (["SF.GenEq.Transfer"] if res.get("transfer") else [])
        r = subprocess.run(["lake", "env", "leanchecker"] + mods, cwd=LEAN, capture_output=True, text=True)
        res["leanchecker"] = "accepted %d modules" % len(mods) if r.returncode == 0 else "REJECTED: " + (r.stdout + r.stderr)[-400:]
        if r.returncode != 0:
            for v in list(res["proved"]):
                res["proved"].remove(v)
                res["broken"][v] = "leanchecker rejected the compiled tie modules"
        res["checker_cmd"] += " && lake env leanchecker SF.GenEq.<View> ... SF.GenEq.Transfer"
    res["wall_s"] = round(time.time() - t0, 1)
    return res

# ------------------------------------------------------------------ encodings

def enc_f(x):
    """value -> 16 hex digits of the f64 bits"""
    return struct.pack(">d", float(x)).hex()


def dec_f(s):
    return struct.unpack(">d", bytes.fromhex(s))[0]


def enc_q(x):
    x = Fraction(x)
    return str(x.numerator) if x.denominator == 1 else "%d/%d" % (x.numerator, x.denominator)


def dec_q(s):
    return Fraction(s)


def enc(mode, x):
    return enc_q(x) if mode == "q" else enc_f(x)


def dec(mode, s):
    return dec_q(s) if mode == "q" else dec_f(s)


class Case:
    __slots__ = ("id", "mode", "target", "text", "ops", "meta")

    def __init__(self, mode, text, ops, target="view", meta=None):
        self.id = None
        self.mode = mode
        self.target = target
        self.text = text
        self.ops = ops
        self.meta = meta or {}

    def to_json(self):
        return {"mode": self.mode, "target": self.target, "text": self.text, "ops": self.ops}

    @staticmethod
    def from_json(d):
        return Case(d["mode"], d["text"], d["ops"], d.get("target", "view"))

    def with_target(self, target, text=None):
        return Case(self.mode, self.text if text is None else text, self.ops, target, self.meta)


def hop_ops(ops, t0, slot=0):
    """insert a clone-and-continue-on-the-clone after the t0-th update (t0 = 0: a clone of the fresh view): `K slot`
    clones the current view into the slot, `W slot` swaps it in.  By C17 nothing observable may change."""
    out, n = [], 0
    if t0 == 0:
        out += ["K %d" % slot, "W %d" % slot]
    for o in ops:
        out.append(o)
        if o[0] in "XU":
            n += 1
            if n == t0:
                out += ["K %d" % slot, "W %d" % slot]
    return out


def xs_ops(mode, values):
    return ["X " + enc(mode, v) for v in values]


def write_cases(path, cases):
    with open(path, "w") as f:
        for i, c in enumerate(cases):
            c.id = i
            f.write("C %d %s %s %s\n" % (i, c.mode, c.target, c.text))
            f.write("\n".join(c.ops))
            f.write("\nE\n")


def parse_out(text, n):
    """-> list (per case) of output lines"""
    res = [[] for _ in range(n)]
    cur = None
    for line in text.split("\n"):
        if not line:
            continue
        if line.startswith("C "):
            cur = int(line[2:])
        elif cur is not None:
            res[cur].append(line)
    return res


_counter = [0]


def run_binary(binary, cases, tag):
    os.makedirs(WORK, exist_ok=True)
    _counter[0] += 1
    path = os.path.join(WORK, "cases_%d_%d_%s.txt" % (os.getpid(), _counter[0], tag))
    write_cases(path, cases)
    with open(path) as f:
        try:
            r = subprocess.run([binary], stdin=f, capture_output=True, text=True, timeout=float(os.environ.get("VERIF_RUN_TIMEOUT", 1500)))
        except subprocess.TimeoutExpired:
            os.unlink(path)
            raise BuildError("%s did not finish a batch of %d cases within the time limit (non-termination?)" % (binary, len(cases)))
    dump = os.environ.get("VERIF_DUMP_CASES")   # tools/coverage.py: keep what was fed to the implementation
    if dump and tag == "impl":
        import shutil
        shutil.copy(path, os.path.join(dump, os.path.basename(path)))
    os.unlink(path)
    if r.returncode != 0:
        raise BuildError("%s crashed (rc %d): %s" % (binary, r.returncode, r.stderr[-2000:]))
    return parse_out(r.stdout, len(cases))


def run_impl(cases, profile="relassert"):
    return run_binary(harness_bin(profile), cases, "impl")


def run_model(cases):
    return run_binary(SFDRV, cases, "model")


# ------------------------------------------------------------------ comparison

HARD = {"unwrap", "index", "underflow", "qdivzero", "other"}


def pclass(kind):
    if kind in HARD:
        return "hard"
    return kind


def line_kind(l):
    return l.split(" ")[0]


def close(a, b, scale, rel=1e-9):
    if a == b:
        return True
    try:
        return abs(a - b) <= rel * max(abs(a), abs(b), scale, 1e-300)
    except OverflowError:
        return False


def compare_lines(mode, a, b, projection, scale=1.0, rel=1e-9):
    """compare implementation lines `a` with model lines `b`. returns (ok, first_diff_index, n_bit_identical)"""
    bit = 0
    n = max(len(a), len(b))
    for i in range(n):
        if i >= len(a) or i >= len(b):
            return False, i, bit
        la, lb = a[i], b[i]
        ka, kb = line_kind(la), line_kind(lb)
        if ka != kb:
            return False, i, bit
        if ka == "P":
            if pclass(la[2:]) != pclass(lb[2:]):
                return False, i, bit
            continue
        if projection == "pattern":
            continue
        if la == lb:
            bit += 1
            continue
        if ka in ("S", "A"):
            va, vb = la.split(" ")[1:], lb.split(" ")[1:]
            if len(va) != len(vb):
                return False, i, bit
            if mode == "q":
                if projection == "exact":
                    return False, i, bit
                for x, y in zip(va, vb):
                    if not close(dec_q(x), dec_q(y), Fraction(scale), Fraction(rel)):
                        return False, i, bit
            else:
                for x, y in zip(va, vb):
                    fx, fy = dec_f(x), dec_f(y)
                    if fx != fx or fy != fy:  # NaN
                        if not (fx != fx and fy != fy):
                            return False, i, bit
                    elif projection == "rel":
                        # each value against its own magnitude (no absolute floor): signed zeros are equal, a subnormal is not 0
                        if not (fx == fy or (abs(fx) != float("inf") and abs(fy) != float("inf")
                                             and abs(fx - fy) <= rel * max(abs(fx), abs(fy)))):
                            return False, i, bit
                    elif not close(fx, fy, scale, rel):
                        return False, i, bit
        else:
            return False, i, bit
    return True, None, bit


def outputs(mode, lines):
    """S/N/P lines -> list of values (None for N, ('P',kind) for panic); A/Z/K lines are skipped"""
    res = []
    for l in lines:
        k = line_kind(l)
        if k == "N":
            res.append(None)
        elif k == "S":
            res.append(dec(mode, l[2:]))
        elif k == "P":
            res.append(("P", l[2:]))
    return res


# ------------------------------------------------------------------ replay / evidence

def save_replay(pid, record):
    os.makedirs(REPLAYS, exist_ok=True)
    body = json.dumps(record, indent=1, sort_keys=True, default=str)
    h = hashlib.sha1(body.encode()).hexdigest()[:10]
    path = os.path.join(REPLAYS, "%s-%s.json" % (pid, h))
    with open(path, "w") as f:
        f.write(body)
    return path


def write_evidence(pid, tier, seed, level, coverage, assumptions, wall, violations):
    os.makedirs(EVIDENCE, exist_ok=True)
    ev = {"property_id": pid, "tier": tier, "seed": seed, "level": level, "coverage": coverage,
          "assumptions": assumptions, "wall_s": round(wall, 2), "violations": violations}
    with open(os.path.join(EVIDENCE, pid + ".json"), "w") as f:
        json.dump(ev, f, indent=1, default=str)
    return ev
