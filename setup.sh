#!/bin/sh
# Build the framework from files on disk only (offline): Lean model + driver + all property modules, Rust harness.
set -e
cd "$(dirname "$0")"
export CARGO_NET_OFFLINE=true
( cd lean && lake build SF sfdrv SF.All )
# translator tie: regenerate SF/Gen from /repo/src and check every SF.GenEq.<View>.tie (about 3 minutes from clean)
python3 tools/rs2lean.py > /dev/null
( cd lean && lake build $(ls SF/GenEq/*.lean | sed 's/\.lean$//; s/\//./g') )
( cd harness && { [ -f Cargo.lock ] || cp /repo/Cargo.lock Cargo.lock; } && cargo build --offline --release && cargo build --offline --profile relassert )
echo "setup done"
