#!/bin/sh
# Build the framework from files on disk only (offline): Lean model + driver + all property modules, Rust harness.
set -e
cd "$(dirname "$0")"
export CARGO_NET_OFFLINE=true
( cd lean && lake build SF sfdrv SF.All )
( cd harness && { [ -f Cargo.lock ] || cp /repo/Cargo.lock Cargo.lock; } && cargo build --offline --release && cargo build --offline --profile relassert )
echo "setup done"
