//! `Q`: an exact rational scalar implementing `num::Float`, so the crate's *generic* code runs unmodified
//! in exact arithmetic.  A `Q` is a `Copy` handle into a thread-local arena of `BigRational`.
//! Transcendental functions are bridged through `f64`: argument rounded to the nearest double, libm
//! function, result converted back exactly (non-finite results become 0) — mirrored by SF/Scalars.lean.

use num::bigint::BigInt;
use num::rational::BigRational;
use num::traits::{FromPrimitive, Num, NumCast, One, ToPrimitive, Zero};
use num::{Float, Signed};
use std::cell::RefCell;
use std::cmp::Ordering;
use std::num::FpCategory;
use std::ops::{Add, Div, Mul, Neg, Rem, Sub};

thread_local! {
    static ARENA: RefCell<Vec<BigRational>> = RefCell::new(Vec::new());
}

pub fn reset_arena() {
    ARENA.with(|a| a.borrow_mut().clear());
}

#[derive(Clone, Copy)]
pub struct Q(u32);

fn mk(r: BigRational) -> Q {
    ARENA.with(|a| {
        let mut a = a.borrow_mut();
        a.push(r);
        Q((a.len() - 1) as u32)
    })
}
fn get(q: Q) -> BigRational {
    ARENA.with(|a| a.borrow()[q.0 as usize].clone())
}

impl std::fmt::Debug for Q {
    fn fmt(&self, f: &mut std::fmt::Formatter<'_>) -> std::fmt::Result {
        write!(f, "{}", self.render())
    }
}

/// the rational whose decimal expansion is the shortest round-trip representation of `f`
/// (so `T::from(0.04)` is exactly 1/25, as in the Lean model's `dec 4 100`)
fn decimal_of_f64(f: f64) -> BigRational {
    if f == 0.0 {
        return BigRational::zero();
    }
    if f.fract() == 0.0 && f.abs() < 9.007199254740992e15 {
        return BigRational::from_integer(BigInt::from(f as i64));
    }
    let s = format!("{:e}", f); // e.g. "8.88442402435e0", "-4e-2"
    let (mant, exp) = s.split_once('e').unwrap();
    let exp: i32 = exp.parse().unwrap();
    let neg = mant.starts_with('-');
    let mant = mant.trim_start_matches('-');
    let (ip, fp) = match mant.split_once('.') {
        Some((a, b)) => (a, b),
        None => (mant, ""),
    };
    let digits = format!("{}{}", ip, fp);
    let mut n: BigInt = digits.parse().unwrap();
    if neg {
        n = -n;
    }
    let e10 = exp - fp.len() as i32;
    let ten = BigInt::from(10);
    if e10 >= 0 {
        BigRational::from_integer(n * num::pow(ten, e10 as usize))
    } else {
        BigRational::new(n, num::pow(ten, (-e10) as usize))
    }
}

impl Q {
    pub fn parse(s: &str) -> Option<Q> {
        let (n, d) = match s.split_once('/') {
            Some((n, d)) => (n, d),
            None => (s, "1"),
        };
        let n: BigInt = n.parse().ok()?;
        let d: BigInt = d.parse().ok()?;
        if d.is_zero() {
            return None;
        }
        Some(mk(BigRational::new(n, d)))
    }
    pub fn render(self) -> String {
        let r = get(self);
        if r.is_integer() {
            format!("{}", r.numer())
        } else {
            format!("{}/{}", r.numer(), r.denom())
        }
    }
    fn bridge(self, f: impl Fn(f64) -> f64) -> Q {
        let x = get(self).to_f64().expect("to_f64");
        let y = f(x);
        if y.is_finite() {
            mk(BigRational::from_float(y).expect("finite"))
        } else {
            mk(BigRational::zero())
        }
    }
}

macro_rules! binop {
    ($tr:ident, $m:ident, $op:tt) => {
        impl $tr for Q {
            type Output = Q;
            fn $m(self, o: Q) -> Q {
                mk(get(self) $op get(o))
            }
        }
    };
}
binop!(Add, add, +);
binop!(Sub, sub, -);
binop!(Mul, mul, *);
impl Div for Q {
    type Output = Q;
    fn div(self, o: Q) -> Q {
        // x / 0 = 0, as in Lean's `Rat` (the model's exact instantiation); the f64 runs are where a
        // division by zero shows (inf / NaN and the crate's finiteness assertions)
        let d = get(o);
        if d.is_zero() {
            return Q::zero();
        }
        mk(get(self) / d)
    }
}
impl Rem for Q {
    type Output = Q;
    fn rem(self, o: Q) -> Q {
        mk(get(self) % get(o))
    }
}
impl Neg for Q {
    type Output = Q;
    fn neg(self) -> Q {
        mk(-get(self))
    }
}
impl PartialEq for Q {
    fn eq(&self, o: &Q) -> bool {
        get(*self) == get(*o)
    }
}
impl PartialOrd for Q {
    fn partial_cmp(&self, o: &Q) -> Option<Ordering> {
        get(*self).partial_cmp(&get(*o))
    }
}
impl Zero for Q {
    fn zero() -> Q {
        mk(BigRational::zero())
    }
    fn is_zero(&self) -> bool {
        get(*self).is_zero()
    }
}
impl One for Q {
    fn one() -> Q {
        mk(BigRational::one())
    }
}
impl Num for Q {
    type FromStrRadixErr = ();
    fn from_str_radix(_s: &str, _r: u32) -> Result<Q, ()> {
        Err(())
    }
}
impl ToPrimitive for Q {
    fn to_i64(&self) -> Option<i64> {
        get(*self).to_integer().to_i64()
    }
    fn to_u64(&self) -> Option<u64> {
        get(*self).to_integer().to_u64()
    }
    fn to_f64(&self) -> Option<f64> {
        get(*self).to_f64()
    }
}
impl NumCast for Q {
    fn from<N: ToPrimitive>(n: N) -> Option<Q> {
        // usize / integer literals and f64 literals both arrive here
        let f = n.to_f64()?;
        if !f.is_finite() {
            return None;
        }
        Some(mk(decimal_of_f64(f)))
    }
}
impl FromPrimitive for Q {
    fn from_i64(n: i64) -> Option<Q> {
        Some(mk(BigRational::from_integer(BigInt::from(n))))
    }
    fn from_u64(n: u64) -> Option<Q> {
        Some(mk(BigRational::from_integer(BigInt::from(n))))
    }
    fn from_f64(f: f64) -> Option<Q> {
        Some(mk(decimal_of_f64(f)))
    }
}

fn f64max() -> BigRational {
    BigRational::from_float(f64::MAX).unwrap()
}

impl Float for Q {
    fn nan() -> Q {
        unimplemented!("Q::nan")
    }
    fn infinity() -> Q {
        unimplemented!("Q::infinity")
    }
    fn neg_infinity() -> Q {
        unimplemented!("Q::neg_infinity")
    }
    fn neg_zero() -> Q {
        Q::zero()
    }
    fn min_value() -> Q {
        mk(-f64max())
    }
    fn min_positive_value() -> Q {
        mk(BigRational::from_float(f64::MIN_POSITIVE).unwrap())
    }
    fn max_value() -> Q {
        mk(f64max())
    }
    fn is_nan(self) -> bool {
        false
    }
    fn is_infinite(self) -> bool {
        false
    }
    fn is_finite(self) -> bool {
        true
    }
    fn is_normal(self) -> bool {
        !get(self).is_zero()
    }
    fn classify(self) -> FpCategory {
        if get(self).is_zero() {
            FpCategory::Zero
        } else {
            FpCategory::Normal
        }
    }
    fn floor(self) -> Q {
        mk(get(self).floor())
    }
    fn ceil(self) -> Q {
        mk(get(self).ceil())
    }
    fn round(self) -> Q {
        mk(get(self).round())
    }
    fn trunc(self) -> Q {
        mk(get(self).trunc())
    }
    fn fract(self) -> Q {
        mk(get(self).fract())
    }
    fn abs(self) -> Q {
        mk(get(self).abs())
    }
    fn signum(self) -> Q {
        // f64::signum(+0.0) == 1.0
        if get(self).is_negative() {
            mk(-BigRational::one())
        } else {
            Q::one()
        }
    }
    fn is_sign_positive(self) -> bool {
        !get(self).is_negative()
    }
    fn is_sign_negative(self) -> bool {
        get(self).is_negative()
    }
    fn mul_add(self, a: Q, b: Q) -> Q {
        self * a + b
    }
    fn recip(self) -> Q {
        Q::one() / self
    }
    fn powi(self, n: i32) -> Q {
        let r = get(self);
        if n >= 0 {
            mk(num::pow(r, n as usize))
        } else {
            Q::one() / mk(num::pow(r, (-n) as usize))
        }
    }
    fn powf(self, n: Q) -> Q {
        let e = get(n).to_f64().unwrap();
        self.bridge(|x| x.powf(e))
    }
    fn sqrt(self) -> Q {
        self.bridge(f64::sqrt)
    }
    fn exp(self) -> Q {
        self.bridge(f64::exp)
    }
    fn exp2(self) -> Q {
        self.bridge(f64::exp2)
    }
    fn ln(self) -> Q {
        self.bridge(f64::ln)
    }
    fn log(self, base: Q) -> Q {
        let b = get(base).to_f64().unwrap();
        self.bridge(|x| x.log(b))
    }
    fn log2(self) -> Q {
        self.bridge(f64::log2)
    }
    fn log10(self) -> Q {
        self.bridge(f64::log10)
    }
    fn max(self, o: Q) -> Q {
        if self >= o {
            self
        } else {
            o
        }
    }
    fn min(self, o: Q) -> Q {
        if self <= o {
            self
        } else {
            o
        }
    }
    fn abs_sub(self, o: Q) -> Q {
        if self <= o {
            Q::zero()
        } else {
            self - o
        }
    }
    fn cbrt(self) -> Q {
        self.bridge(f64::cbrt)
    }
    fn hypot(self, o: Q) -> Q {
        let b = get(o).to_f64().unwrap();
        self.bridge(|x| x.hypot(b))
    }
    fn sin(self) -> Q {
        self.bridge(f64::sin)
    }
    fn cos(self) -> Q {
        self.bridge(f64::cos)
    }
    fn tan(self) -> Q {
        self.bridge(f64::tan)
    }
    fn asin(self) -> Q {
        self.bridge(f64::asin)
    }
    fn acos(self) -> Q {
        self.bridge(f64::acos)
    }
    fn atan(self) -> Q {
        self.bridge(f64::atan)
    }
    fn atan2(self, o: Q) -> Q {
        let b = get(o).to_f64().unwrap();
        self.bridge(|x| x.atan2(b))
    }
    fn sin_cos(self) -> (Q, Q) {
        (self.sin(), self.cos())
    }
    fn exp_m1(self) -> Q {
        self.bridge(f64::exp_m1)
    }
    fn ln_1p(self) -> Q {
        self.bridge(f64::ln_1p)
    }
    fn sinh(self) -> Q {
        self.bridge(f64::sinh)
    }
    fn cosh(self) -> Q {
        self.bridge(f64::cosh)
    }
    fn tanh(self) -> Q {
        self.bridge(f64::tanh)
    }
    fn asinh(self) -> Q {
        self.bridge(f64::asinh)
    }
    fn acosh(self) -> Q {
        self.bridge(f64::acosh)
    }
    fn atanh(self) -> Q {
        self.bridge(f64::atanh)
    }
    fn integer_decode(self) -> (u64, i16, i8) {
        unimplemented!("Q::integer_decode")
    }
}
