//! Line-protocol harness around the real `sliding_features` crate (path dependency on /repo).
//! Same protocol as /verif/lean/Driver.lean; see there.  Builds every view from the same S-expression
//! text out of the crate's real generic structs, at `f64` and at the exact rational scalar `Q`.

mod alloc;
mod q;

use num::Float;
use sliding_features::pure_functions::*;
use sliding_features::rolling::*;
use sliding_features::sliding_windows::*;
use sliding_features::View;
use std::cell::RefCell;
use std::io::{BufRead, BufWriter, Write};
use std::panic::{catch_unwind, AssertUnwindSafe};

#[global_allocator]
static GLOBAL: alloc::Meter = alloc::Meter;

// ---------------------------------------------------------------- scalars

pub trait Scalar: Float + std::fmt::Debug + 'static {
    fn parse(s: &str) -> Option<Self>;
    fn render(self) -> String;
}

impl Scalar for f64 {
    fn parse(s: &str) -> Option<Self> {
        u64::from_str_radix(s, 16).ok().map(f64::from_bits)
    }
    fn render(self) -> String {
        format!("{:016x}", self.to_bits())
    }
}

impl Scalar for f32 {
    // f32 values travel as the bits of the equal f64
    fn parse(s: &str) -> Option<Self> {
        u64::from_str_radix(s, 16).ok().map(|b| f64::from_bits(b) as f32)
    }
    fn render(self) -> String {
        format!("{:016x}", (self as f64).to_bits())
    }
}

impl Scalar for q::Q {
    fn parse(s: &str) -> Option<Self> {
        q::Q::parse(s)
    }
    fn render(self) -> String {
        self.render()
    }
}

// ---------------------------------------------------------------- S-expressions

#[derive(Debug, Clone)]
enum SX {
    Atom(String),
    List(Vec<SX>),
}

fn tokenize(s: &str) -> Vec<String> {
    s.replace('(', " ( ")
        .replace(')', " ) ")
        .split_whitespace()
        .map(|t| t.to_string())
        .collect()
}

fn parse_list(toks: &[String], pos: &mut usize) -> Option<Vec<SX>> {
    let mut out = Vec::new();
    loop {
        if *pos >= toks.len() {
            return None;
        }
        let t = &toks[*pos];
        *pos += 1;
        if t == ")" {
            return Some(out);
        } else if t == "(" {
            out.push(SX::List(parse_list(toks, pos)?));
        } else {
            out.push(SX::Atom(t.clone()));
        }
    }
}

fn parse_sx(s: &str) -> Option<SX> {
    let toks = tokenize(s);
    if toks.first().map(|t| t.as_str()) != Some("(") {
        return None;
    }
    let mut pos = 1;
    let l = parse_list(&toks, &mut pos)?;
    if pos != toks.len() {
        return None;
    }
    Some(SX::List(l))
}

// ---------------------------------------------------------------- dynamic views

trait DynView<T: Float> {
    fn update(&mut self, v: T);
    fn last(&self) -> Option<T>;
    fn box_clone(&self) -> Option<Box<dyn DynView<T>>>;
    fn acc(&self) -> Vec<T> {
        Vec::new()
    }
}

struct Dyn<T: Float>(Box<dyn DynView<T>>);

impl<T: Float> View<T> for Dyn<T> {
    fn update(&mut self, val: T) {
        self.0.update(val)
    }
    fn last(&self) -> Option<T> {
        self.0.last()
    }
}

impl<T: Float> Clone for Dyn<T> {
    fn clone(&self) -> Self {
        Dyn(self.0.box_clone().expect("noclone"))
    }
}

/// any clonable crate view
struct W<V>(V);
impl<T: Float + 'static, V: View<T> + Clone + 'static> DynView<T> for W<V> {
    fn update(&mut self, v: T) {
        self.0.update(v)
    }
    fn last(&self) -> Option<T> {
        self.0.last()
    }
    fn box_clone(&self) -> Option<Box<dyn DynView<T>>> {
        Some(Box::new(W(self.0.clone())))
    }
}

/// `Add` does not implement `Clone`
struct WAdd<T: Float>(Add<T, Dyn<T>, Dyn<T>>);
impl<T: Float + 'static> DynView<T> for WAdd<T> {
    fn update(&mut self, v: T) {
        self.0.update(v)
    }
    fn last(&self) -> Option<T> {
        self.0.last()
    }
    fn box_clone(&self) -> Option<Box<dyn DynView<T>>> {
        None
    }
}

struct WWo<T: Float>(WelfordOnline<T, Dyn<T>>);
impl<T: Float + 'static> DynView<T> for WWo<T> {
    fn update(&mut self, v: T) {
        self.0.update(v)
    }
    fn last(&self) -> Option<T> {
        self.0.last()
    }
    fn box_clone(&self) -> Option<Box<dyn DynView<T>>> {
        Some(Box::new(WWo(self.0.clone())))
    }
    fn acc(&self) -> Vec<T> {
        vec![self.0.mean(), self.0.variance()]
    }
}

struct WWr<T: Float, V: View<T> + Clone = Dyn<T>>(WelfordRolling<T, V>);
impl<T: Float + 'static, V: View<T> + Clone + 'static> DynView<T> for WWr<T, V> {
    fn update(&mut self, v: T) {
        self.0.update(v)
    }
    fn last(&self) -> Option<T> {
        self.0.last()
    }
    fn box_clone(&self) -> Option<Box<dyn DynView<T>>> {
        Some(Box::new(WWr(self.0.clone())))
    }
    fn acc(&self) -> Vec<T> {
        vec![self.0.mean(), self.0.variance()]
    }
}

/// test-only leaf whose `last()` follows a script indexed by the number of updates seen
#[derive(Clone)]
struct Probe<T> {
    script: Vec<Option<T>>,
    n: usize,
}
impl<T: Float> View<T> for Probe<T> {
    fn update(&mut self, _val: T) {
        self.n += 1;
    }
    fn last(&self) -> Option<T> {
        if self.n == 0 || self.script.is_empty() {
            return None;
        }
        self.script[std::cmp::min(self.n - 1, self.script.len() - 1)]
    }
}

fn dynw<T: Float + 'static, V: View<T> + Clone + 'static>(v: V) -> Dyn<T> {
    Dyn(Box::new(W(v)))
}

fn is_echo(sx: &SX) -> bool {
    matches!(sx, SX::List(v) if v.len() == 1 && matches!(&v[0], SX::Atom(s) if s == "echo"))
}

fn atom(sx: &SX) -> Result<&str, String> {
    match sx {
        SX::Atom(s) => Ok(s),
        _ => Err("expected atom".into()),
    }
}
fn usz(sx: &SX) -> Result<usize, String> {
    atom(sx)?.parse::<usize>().map_err(|e| e.to_string())
}
fn sc<T: Scalar>(sx: &SX) -> Result<T, String> {
    T::parse(atom(sx)?).ok_or_else(|| "bad scalar".to_string())
}

/// builds the view; the bool says whether the Rust type is `Clone`
fn build<T: Scalar>(sx: &SX) -> Result<(Dyn<T>, bool), String> {
    let l = match sx {
        SX::List(l) => l,
        _ => return Err("expected list".into()),
    };
    let name = atom(l.first().ok_or("empty")?)?;
    let a = &l[1..];
    let r: (Dyn<T>, bool) = match (name, a.len()) {
        ("echo", 0) => (dynw(Echo::<T>::new()), true),
        ("const", 1) => (dynw(Constant::new(sc::<T>(&a[0])?)), true),
        ("probe", _) => {
            let mut script = Vec::new();
            for it in a {
                let s = atom(it)?;
                if s == "N" {
                    script.push(None)
                } else {
                    script.push(Some(T::parse(s).ok_or("bad scalar")?))
                }
            }
            (dynw(Probe { script, n: 0 }), true)
        }
        ("add", 2) => {
            let (x, _) = build::<T>(&a[0])?;
            let (y, _) = build::<T>(&a[1])?;
            (Dyn(Box::new(WAdd(Add::new(x, y)))), false)
        }
        ("sub", 2) => {
            let (x, cx) = build::<T>(&a[0])?;
            let (y, cy) = build::<T>(&a[1])?;
            (dynw(Subtract::new(x, y)), cx && cy)
        }
        ("mul", 2) => {
            let (x, cx) = build::<T>(&a[0])?;
            let (y, cy) = build::<T>(&a[1])?;
            (dynw(Multiply::new(x, y)), cx && cy)
        }
        ("div", 2) => {
            let (x, cx) = build::<T>(&a[0])?;
            let (y, cy) = build::<T>(&a[1])?;
            (dynw(Divide::new(x, y)), cx && cy)
        }
        ("pfe", 3) => {
            let (x, cx) = build::<T>(&a[0])?;
            let (m, cm) = build::<T>(&a[1])?;
            (dynw(PolarizedFractalEfficiency::new(x, m, usz(&a[2])?)), cx && cm)
        }
        ("eft", 3) => {
            let (x, cx) = build::<T>(&a[0])?;
            let (m, cm) = build::<T>(&a[1])?;
            (dynw(EhlersFisherTransform::new(x, m, usz(&a[2])?)), cx && cm)
        }
        (_, n) if n >= 1 => {
            let (x, c) = build::<T>(&a[0])?;
            let p = &a[1..];
            let v: Dyn<T> = match (name, p.len()) {
                ("tanh", 0) => dynw(Tanh::new(x)),
                ("gte", 1) => dynw(GTE::new(x, sc::<T>(&p[0])?)),
                ("lte", 1) => dynw(LTE::new(x, sc::<T>(&p[0])?)),
                ("drawdown", 0) => dynw(Drawdown::new(x)),
                ("lnret", 0) => dynw(LnReturn::new(x)),
                ("wroll", 0) => Dyn(Box::new(WWr(WelfordRolling::new(x)))),
                // the `Default` impls (over `Echo`) — used when the inner expression is the bare `(echo)`
                ("drawdown_d", 0) if is_echo(&a[0]) => dynw(Drawdown::<T, Echo<T>>::default()),
                ("lnret_d", 0) if is_echo(&a[0]) => dynw(LnReturn::<T, Echo<T>>::default()),
                ("wroll_d", 0) if is_echo(&a[0]) => Dyn(Box::new(WWr(WelfordRolling::<T, Echo<T>>::default()))),
                ("drawdown_d", 0) => dynw(Drawdown::new(x)),
                ("lnret_d", 0) => dynw(LnReturn::new(x)),
                ("wroll_d", 0) => Dyn(Box::new(WWr(WelfordRolling::new(x)))),
                ("sma", 1) => dynw(Sma::new(x, usz(&p[0])?)),
                ("ema", 1) => dynw(Ema::new(x, usz(&p[0])?)),
                ("emaa", 2) => dynw(Ema::with_alpha(x, usz(&p[0])?, sc::<T>(&p[1])?)),
                ("alma", 1) => dynw(Alma::new(x, usz(&p[0])?)),
                ("almac", 3) => dynw(Alma::new_custom(x, usz(&p[0])?, sc::<T>(&p[1])?, sc::<T>(&p[2])?)),
                ("cum", 1) => dynw(Cumulative::new(x, usz(&p[0])?)),
                ("min", 1) => dynw(Min::new(x, usz(&p[0])?)),
                ("max", 1) => dynw(Max::new(x, usz(&p[0])?)),
                ("roc", 1) => dynw(Roc::new(x, usz(&p[0])?)),
                ("rsi", 1) => dynw(Rsi::new(x, usz(&p[0])?)),
                ("myrsi", 1) => dynw(MyRSI::new(x, usz(&p[0])?)),
                ("wo", 1) => Dyn(Box::new(WWo(WelfordOnline::new(x, usz(&p[0])?)))),
                ("vst", 1) => dynw(Vst::new(x, usz(&p[0])?)),
                ("vsct", 1) => dynw(Vsct::new(x, usz(&p[0])?)),
                ("hln", 1) => dynw(HLNormalizer::new(x, usz(&p[0])?)),
                ("bent", 1) => dynw(BinaryEntropy::new(x, usz(&p[0])?)),
                ("cog", 1) => dynw(CenterOfGravity::new(x, usz(&p[0])?)),
                ("cti", 1) => dynw(CorrelationTrendIndicator::new(x, usz(&p[0])?)),
                ("net", 1) => dynw(NoiseEliminationTechnology::new(x, usz(&p[0])?)),
                ("ss", 1) => dynw(SuperSmoother::new(x, usz(&p[0])?)),
                ("roof", 2) => dynw(RoofingFilter::new(x, usz(&p[0])?, usz(&p[1])?)),
                ("cc", 1) => dynw(CyberCycle::new(x, usz(&p[0])?)),
                ("lagf", 1) => dynw(LaguerreFilter::new(x, sc::<T>(&p[0])?)),
                ("lagrsi", 1) => dynw(LaguerreRSI::new(x, usz(&p[0])?)),
                ("tflex", 1) => dynw(TrendFlex::new(x, usz(&p[0])?)),
                ("rflex", 1) => dynw(ReFlex::new(x, usz(&p[0])?)),
                _ => return Err(format!("unknown view {}", name)),
            };
            (v, c)
        }
        _ => return Err(format!("unknown view {}", name)),
    };
    Ok(r)
}

// ---------------------------------------------------------------- panics

thread_local! {
    static LAST_PANIC: RefCell<String> = RefCell::new(String::new());
}

fn classify(msg: &str) -> &'static str {
    if msg.contains("value must be finite")
        || msg.contains("cannot divide by zero")
        || msg.contains("Variance must be positive")
    {
        "debug"
    } else if msg.contains("must be >") || msg.contains("must be greater") {
        "assert"
    } else if msg.contains("subtract with overflow") {
        "underflow"
    } else if msg.contains("out of bounds") || msg.contains("Out of bounds") {
        "index"
    } else if msg.contains("qdivzero") {
        "qdivzero"
    } else if msg.contains("unwrap()")
        || msg.contains("Is some at this point")
        || msg.contains("There is a value")
        || msg.contains("Has a minimum value")
        || msg.contains("Can compare elements")
        || msg.contains("can convert")
        || msg.contains("Can convert")
    {
        "unwrap"
    } else if msg.contains("noclone") {
        "noclone"
    } else {
        "other"
    }
}

fn guarded<R>(f: impl FnOnce() -> R) -> Result<R, &'static str> {
    alloc::set_tracking(true);
    let r = catch_unwind(AssertUnwindSafe(f));
    alloc::set_tracking(false);
    match r {
        Ok(v) => Ok(v),
        Err(_) => {
            let m = LAST_PANIC.with(|m| m.borrow().clone());
            Err(classify(&m))
        }
    }
}

// ---------------------------------------------------------------- interpreter

struct Lines<'a> {
    it: std::io::Lines<std::io::StdinLock<'a>>,
}

fn run_case<T: Scalar>(text: &str, lines: &mut Lines, out: &mut impl Write) {
    let skip = |lines: &mut Lines| {
        for l in lines.it.by_ref() {
            if l.unwrap().trim() == "E" {
                break;
            }
        }
    };
    let sx = match parse_sx(text) {
        Some(s) => s,
        None => {
            writeln!(out, "bad-view").unwrap();
            skip(lines);
            return;
        }
    };
    let base = alloc::tracked_live();
    let built = guarded(|| build::<T>(&sx));
    let (mut cur, clonable) = match built {
        Ok(Ok(v)) => v,
        Ok(Err(_e)) => {
            writeln!(out, "bad-view").unwrap();
            skip(lines);
            return;
        }
        Err(kind) => {
            writeln!(out, "P {}", kind).unwrap();
            skip(lines);
            return;
        }
    };
    let mut slots: Vec<Option<Dyn<T>>> = vec![None, None, None, None];
    let mut dead = false;
    while let Some(l) = lines.it.next() {
        let l = l.unwrap();
        let toks: Vec<&str> = l.split_whitespace().collect();
        if toks.is_empty() {
            continue;
        }
        if toks[0] == "E" {
            break;
        }
        if dead {
            continue;
        }
        let do_last = |cur: &Dyn<T>, out: &mut dyn Write| -> bool {
            match guarded(|| cur.last()) {
                Ok(None) => {
                    writeln!(out, "N").unwrap();
                    true
                }
                Ok(Some(v)) => {
                    writeln!(out, "S {}", v.render()).unwrap();
                    true
                }
                Err(k) => {
                    writeln!(out, "P {}", k).unwrap();
                    false
                }
            }
        };
        match (toks[0], toks.len()) {
            ("U", 2) | ("X", 2) => match T::parse(toks[1]) {
                None => writeln!(out, "bad-op").unwrap(),
                Some(x) => match guarded(|| cur.update(x)) {
                    Ok(()) => {
                        if toks[0] == "X" && !do_last(&cur, out) {
                            dead = true;
                        }
                    }
                    Err(k) => {
                        writeln!(out, "P {}", k).unwrap();
                        dead = true;
                    }
                },
            },
            ("L", 1) => {
                if !do_last(&cur, out) {
                    dead = true;
                }
            }
            ("A", 1) => {
                let vs = cur.0.acc();
                let mut s = String::from("A");
                for v in vs {
                    s.push(' ');
                    s.push_str(&v.render());
                }
                writeln!(out, "{}", s).unwrap();
            }
            ("Z", 1) => {
                writeln!(out, "Z {}", alloc::tracked_live() - base).unwrap();
            }
            ("K", 2) => match toks[1].parse::<usize>() {
                Ok(k) if k < slots.len() => {
                    if !clonable {
                        writeln!(out, "K noclone").unwrap();
                    } else {
                        match guarded(|| cur.clone()) {
                            Ok(c) => {
                                slots[k] = Some(c);
                                writeln!(out, "K ok").unwrap();
                            }
                            Err(kd) => {
                                writeln!(out, "P {}", kd).unwrap();
                                dead = true;
                            }
                        }
                    }
                }
                _ => writeln!(out, "bad-op").unwrap(),
            },
            ("W", 2) => match toks[1].parse::<usize>() {
                Ok(k) if k < slots.len() => {
                    // swap: the current view is parked in the slot.  An empty slot holds a fresh view.
                    let other = match slots[k].take() {
                        Some(v) => v,
                        None => match guarded(|| build::<T>(&sx)) {
                            Ok(Ok((v, _))) => v,
                            _ => {
                                writeln!(out, "bad-op").unwrap();
                                continue;
                            }
                        },
                    };
                    let prev = std::mem::replace(&mut cur, other);
                    slots[k] = Some(prev);
                }
                _ => writeln!(out, "bad-op").unwrap(),
            },
            _ => writeln!(out, "bad-op").unwrap(),
        }
    }
    // dropping the views must not be attributed to the next case
    alloc::set_tracking(true);
    drop(cur);
    drop(slots);
    alloc::set_tracking(false);
}

fn main() {
    std::panic::set_hook(Box::new(|info| {
        let msg = if let Some(s) = info.payload().downcast_ref::<&str>() {
            s.to_string()
        } else if let Some(s) = info.payload().downcast_ref::<String>() {
            s.clone()
        } else {
            String::from("unknown")
        };
        LAST_PANIC.with(|m| *m.borrow_mut() = msg);
    }));
    let stdin = std::io::stdin();
    let mut lines = Lines { it: stdin.lock().lines() };
    let stdout = std::io::stdout();
    let mut out = BufWriter::new(stdout.lock());
    while let Some(l) = lines.it.next() {
        let l = l.unwrap();
        let l = l.trim();
        let mut parts = l.splitn(5, ' ');
        if parts.next() != Some("C") {
            continue;
        }
        let id = parts.next().unwrap_or("?");
        let mode = parts.next().unwrap_or("?");
        let _target = parts.next().unwrap_or("view");
        let text = parts.next().unwrap_or("");
        writeln!(out, "C {}", id).unwrap();
        q::reset_arena();
        match mode {
            "f" => run_case::<f64>(text, &mut lines, &mut out),
            "s" => run_case::<f32>(text, &mut lines, &mut out),
            "q" => run_case::<q::Q>(text, &mut lines, &mut out),
            _ => {
                writeln!(out, "bad-mode").unwrap();
            }
        }
    }
    out.flush().unwrap();
}
