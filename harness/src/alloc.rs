//! Counting allocator: every block carries a 16-byte (or `align`-byte) header that records whether it was
//! allocated while "tracking" was on (i.e. inside view code: construction, update, clone).  `tracked_live`
//! is the number of payload bytes of live tracked blocks = heap memory owned by the views.

use std::alloc::{GlobalAlloc, Layout, System};
use std::cell::Cell;
use std::sync::atomic::{AtomicIsize, Ordering};

pub struct Meter;

static TRACKED: AtomicIsize = AtomicIsize::new(0);
thread_local! {
    static ON: Cell<bool> = const { Cell::new(false) };
}

pub fn set_tracking(on: bool) {
    ON.with(|c| c.set(on));
}
pub fn tracked_live() -> isize {
    TRACKED.load(Ordering::SeqCst)
}

fn hdr(layout: &Layout) -> usize {
    std::cmp::max(16, layout.align())
}

unsafe impl GlobalAlloc for Meter {
    unsafe fn alloc(&self, layout: Layout) -> *mut u8 {
        let h = hdr(&layout);
        let full = Layout::from_size_align_unchecked(layout.size() + h, h);
        let p = System.alloc(full);
        if p.is_null() {
            return p;
        }
        let on = ON.try_with(|c| c.get()).unwrap_or(false);
        *(p as *mut u64) = if on { 1 } else { 0 };
        if on {
            TRACKED.fetch_add(layout.size() as isize, Ordering::SeqCst);
        }
        p.add(h)
    }
    unsafe fn dealloc(&self, ptr: *mut u8, layout: Layout) {
        let h = hdr(&layout);
        let p = ptr.sub(h);
        if *(p as *mut u64) == 1 {
            TRACKED.fetch_sub(layout.size() as isize, Ordering::SeqCst);
        }
        let full = Layout::from_size_align_unchecked(layout.size() + h, h);
        System.dealloc(p, full);
    }
    unsafe fn realloc(&self, ptr: *mut u8, layout: Layout, new_size: usize) -> *mut u8 {
        let h = hdr(&layout);
        let p = ptr.sub(h);
        let tagged = *(p as *mut u64) == 1;
        let full = Layout::from_size_align_unchecked(layout.size() + h, h);
        let np = System.realloc(p, full, new_size + h);
        if np.is_null() {
            return np;
        }
        if tagged {
            TRACKED.fetch_add(new_size as isize - layout.size() as isize, Ordering::SeqCst);
        }
        np.add(h)
    }
}
